//! C03 — forward kinematics equals the OPW link chain, for the tool point and every link.

use crate::common::ev::*;
use crate::common::fkref;
use crate::common::m3::*;
use crate::common::par;
use crate::common::robots::*;
use rs_opw_kinematics::kinematic_traits::Kinematics;
use rs_opw_kinematics::kinematics_impl::OPWKinematics;
use rs_opw_kinematics::parameters::opw_kinematics::Parameters;
use serde_json::{json, Value};
use std::f64::consts::PI;

const POS_TOL: f64 = 1e-9;
const ANG_TOL: f64 = 1e-9;
const SEP_TOL: f64 = 1e-12;

fn bits_eq(a: &nalgebra::Isometry3<f64>, b: &nalgebra::Isometry3<f64>) -> bool {
    let (ta, tb) = (a.translation.vector, b.translation.vector);
    let (qa, qb) = (a.rotation.quaternion(), b.rotation.quaternion());
    ta.x.to_bits() == tb.x.to_bits()
        && ta.y.to_bits() == tb.y.to_bits()
        && ta.z.to_bits() == tb.z.to_bits()
        && qa.w.to_bits() == qb.w.to_bits()
        && qa.i.to_bits() == qb.i.to_bits()
        && qa.j.to_bits() == qb.j.to_bits()
        && qa.k.to_bits() == qb.k.to_bits()
}

/// Evaluate one (robot, joints) point. Returns (key, detail) failures.
thread_local! {
    static DECOY: OPWKinematics = OPWKinematics::new(make(0.07, 0.03, -0.02, [0.33, 0.41, 0.39, 0.06], [-1, 1, 1, -1, 1, -1], [0.1, -0.2, 0.3, 0.0, 0.5, -0.4], 6));
}

pub fn eval(p: &Parameters, q: &[f64; 6]) -> Vec<(String, String)> {
    let mut fails = Vec::new();
    let robot = OPWKinematics::new(*p);
    // on an eighth of the points (chosen by the bits of q) an unrelated robot of the same thread is asked the same question
    // first, and the robot under test is asked twice: forward kinematics must be a function of (parameters, joints) alone
    let hq = q[0].to_bits() ^ q[2].to_bits().rotate_left(19) ^ q[4].to_bits().rotate_left(37) ^ p.c2.to_bits().rotate_left(11);
    let probe = (hq ^ (hq >> 29)) % 8 == 0;
    if probe {
        DECOY.with(|d| {
            let _ = (d.forward(q), d.forward_with_joint_poses(q));
        });
    }
    let fwd_na = robot.forward(q);
    let links_na = robot.forward_with_joint_poses(q);
    if probe {
        DECOY.with(|d| {
            let _ = (d.forward_with_joint_poses(q), d.forward(q));
        });
        let again = robot.forward(q);
        let links_again = robot.forward_with_joint_poses(q);
        let same = |a: &nalgebra::Isometry3<f64>, b: &nalgebra::Isometry3<f64>| {
            a.translation.vector.iter().zip(b.translation.vector.iter()).all(|(x, y)| x.to_bits() == y.to_bits())
                && a.rotation.coords.iter().zip(b.rotation.coords.iter()).all(|(x, y)| x.to_bits() == y.to_bits())
        };
        if !same(&fwd_na, &again) || (0..6).any(|i| !same(&links_na[i], &links_again[i])) {
            fails.push(("C03/not-a-function-of-its-arguments".to_string(), "two identical forward calls (an unrelated robot queried in between) returned different poses".to_string()));
        }
    }
    // on the same eighth: the robot behind a geared parallelogram (J2 drives J3, ratio 0.5 / -1 / 2 by the bits of q). Its
    // flange pose and its six link poses are those of the chain at the joint vector the wrapped robot sees
    if probe {
        let scaling = [0.5, -1.0, 2.0][((hq >> 7) % 3) as usize];
        let geared = rs_opw_kinematics::parallelogram::Parallelogram { robot: std::sync::Arc::new(OPWKinematics::new(*p)), scaling, driven: 1, coupled: 2 };
        let mut seen = *q;
        seen[2] -= scaling * q[1];
        let want = fkref::links(p, &seen);
        let got_links = geared.forward_with_joint_poses(q);
        let got_fwd = from_na(&geared.forward(q));
        let (dp, da) = pose_dist(&got_fwd, &want[5]);
        if !(dp <= POS_TOL && da <= ANG_TOL) {
            fails.push(("C03/geared-parallelogram/forward-vs-chain".to_string(), format!("forward differs from the chain at the wrapped robot's joints by {dp:e} m, {da:e} rad (ratio {scaling})")));
        }
        for i in 0..6 {
            let (dp, da) = pose_dist(&from_na(&got_links[i]), &want[i]);
            if !(dp <= POS_TOL && da <= ANG_TOL) {
                fails.push((format!("C03/geared-parallelogram/link{}-vs-chain", i + 1), format!("link {} differs from the chain at the wrapped robot's joints by {dp:e} m, {da:e} rad (ratio {scaling})", i + 1)));
                break;
            }
        }
    }
    let fwd = from_na(&fwd_na);
    let refl = fkref::links(p, q);
    let tcp_ref = refl[5];

    let (dp, da) = pose_dist(&fwd, &tcp_ref);
    if !(dp <= POS_TOL && da <= ANG_TOL) {
        fails.push((
            "C03/forward-vs-chain".to_string(),
            format!("forward differs from OPW chain by {dp:e} m, {da:e} rad"),
        ));
    }
    let last = from_na(&links_na[5]);
    let (dp, da) = pose_dist(&fwd, &last);
    if !(dp <= POS_TOL && da <= ANG_TOL) {
        fails.push((
            "C03/last-link-vs-forward".to_string(),
            format!("forward_with_joint_poses[5] differs from forward by {dp:e} m, {da:e} rad"),
        ));
    }
    for i in 0..6 {
        let l = from_na(&links_na[i]);
        let (dp, da) = pose_dist(&l, &refl[i]);
        if !(dp <= POS_TOL && da <= ANG_TOL) {
            fails.push((
                format!("C03/link{}-vs-chain", i + 1),
                format!("link {} differs from OPW chain by {dp:e} m, {da:e} rad", i + 1),
            ));
        }
        let n = raw_quat_norm(&links_na[i]);
        if !((n - 1.0).abs() <= 1e-12) || !l.is_finite() {
            fails.push((
                "C03/rotation-proper".to_string(),
                format!("link {} rotation is not a unit rotation (|q|={n})", i + 1),
            ));
        }
        if orthonormality_defect(&l.r) > 1e-12 {
            fails.push(("C03/rotation-proper".to_string(), format!("link {} rotation matrix not orthonormal", i + 1)));
        }
    }
    if !((raw_quat_norm(&fwd_na) - 1.0).abs() <= 1e-12) || !fwd.is_finite() {
        fails.push(("C03/rotation-proper".to_string(), "forward rotation is not a unit rotation".to_string()));
    }
    // separations between consecutive link origins
    let want = [
        (p.a1 * p.a1 + p.b * p.b).sqrt(),
        p.c2.abs(),
        p.a2.abs(),
        p.c3.abs(),
        p.c4.abs(),
    ];
    for i in 0..5 {
        let a = links_na[i].translation.vector;
        let b = links_na[i + 1].translation.vector;
        let d = (b - a).norm();
        if !((d - want[i]).abs() <= SEP_TOL) {
            fails.push((
                format!("C03/separation{}-{}", i + 1, i + 2),
                format!("origins of links {} and {} are {d} apart, parameters say {}", i + 1, i + 2, want[i]),
            ));
        }
    }
    // link i depends only on joints 1..i
    for k in 1..6 {
        let mut q2 = *q;
        q2[k] += 0.37;
        let l2 = robot.forward_with_joint_poses(&q2);
        for i in 0..k {
            if !bits_eq(&l2[i], &links_na[i]) {
                fails.push((
                    "C03/prefix-dependence".to_string(),
                    format!("link {} changed when joint {} changed", i + 1, k + 1),
                ));
                break;
            }
        }
    }
    fails
}

fn joint_axes(ctx: &Ctx) -> [Vec<f64>; 6] {
    if ctx.quick() {
        [
            vec![0.0, 0.7, -2.1, 7.0 * PI, PI, -1e3],
            vec![0.0, -0.9, 1.3, PI / 2.0, -7.0 * PI],
            vec![0.0, 0.8, -1.9, -PI / 2.0, 1e3],
            vec![0.0, 1.1, -3.0, 1e3, PI],
            vec![0.0, 0.6, -1.2, PI, -7.0 * PI, 1e-9],
            vec![0.0, 2.5, -7.0 * PI, 1e3],
        ]
    } else {
        [
            vec![0.0, 0.7, -2.1, 7.0 * PI, PI, -1e3, 0.1, -0.4],
            vec![0.0, -0.9, 1.3, PI / 2.0, -7.0 * PI, 2.2],
            vec![0.0, 0.8, -1.9, -PI / 2.0, 1e3, 3.0],
            vec![0.0, 1.1, -3.0, 1e3, PI, -0.2],
            vec![0.0, 0.6, -1.2, PI, -7.0 * PI, 1e-9],
            vec![0.0, 2.5, -7.0 * PI, 1e3],
        ]
    }
}

fn robots(ctx: &Ctx) -> Vec<Parameters> {
    let mut out = Vec::new();
    let geos = geometries(!ctx.quick());
    for g in &geos {
        for s in sign_patterns(true) {
            for o in offset_sets() {
                out.push(make(g.0, g.1, g.2, g.3, s, o, 6));
            }
        }
    }
    for (_, p) in presets() {
        out.push(p);
    }
    // forward kinematics does not depend on the declared number of driven joints: dof = 5 (also with the J6 sign 0 the
    // YAML loader produces) on the first two geometries
    for g in geos.iter().take(2) {
        for s in sign_patterns(false) {
            for o in offset_sets() {
                out.push(make(g.0, g.1, g.2, g.3, s, o, 5));
            }
        }
    }
    // one parameter almost zero (every third ladder magnitude)
    let lad: Vec<f64> = crate::common::ladder::ladder(&["kinematics_impl.rs"]).into_iter().step_by(3).collect();
    out.extend(tiny_param_robots(&lad, &[6]));
    // forward kinematics is defined for any parameter values: zero and negative lengths too
    for (a1, a2, b, c) in [
        (0.1, -0.1, 0.0, [0.5, 0.0, 0.6, 0.1]),
        (0.1, 0.0, 0.0, [0.5, 0.6, 0.0, 0.1]),
        (0.0, 0.0, 0.0, [0.0, 0.5, 0.5, 0.0]),
        (0.0, 0.0, 0.0, [0.0, 0.0, 0.0, 0.0]),
        (0.1, 0.0, 0.02, [0.5, 0.6, -0.6, 0.1]),
        (-0.2, -0.1, 0.0, [-0.3, -0.6, -0.5, -0.1]),
        (0.1, 0.1, 0.0, [0.5, -0.6, 0.55, 0.1]),
    ] {
        for s in sign_patterns(false) {
            for o in offset_sets() {
                out.push(make(a1, a2, b, c, s, o, 6));
            }
        }
    }
    out
}

fn case_json(p: &Parameters, q: &[f64; 6]) -> Value {
    json!({"params": params_json(p), "joints": nums(q)})
}

/// FK_ref against the recorded cases of the independent C++ implementation.
fn validate_oracle(rep: &mut Report) {
    let path = "/repo/src/tests/data/cases.yaml";
    let Ok(text) = std::fs::read_to_string(path) else {
        rep.assumptions.push("cases.yaml not readable: FK_ref not cross-validated in this run".into());
        return;
    };
    let irb = make(0.100, -0.135, 0.0, [0.615, 0.705, 0.755, 0.085], [1; 6], [0.0, 0.0, -PI / 2.0, 0.0, 0.0, 0.0], 6);
    let kuka = make(
        0.025,
        -0.035,
        0.0,
        [0.400, 0.315, 0.365, 0.080],
        [-1, 1, 1, -1, 1, -1],
        [0.0, -PI / 2.0, 0.0, 0.0, 0.0, 0.0],
        6,
    );
    let mut cur: Option<Parameters> = None;
    let mut joints: Option<[f64; 6]> = None;
    let mut n = 0u64;
    let mut worst: (f64, f64) = (0.0, 0.0);
    let parse_list = |s: &str| -> Vec<f64> {
        s.trim().trim_start_matches('[').trim_end_matches(']').split(',').map(|x| x.trim().parse::<f64>().unwrap()).collect()
    };
    for line in text.lines() {
        let l = line.trim();
        if let Some(r) = l.strip_prefix("parameters:") {
            cur = match r.trim() {
                "Irb2400_10" => Some(irb),
                "KukaKR6_R700_sixx" => Some(kuka),
                _ => None,
            };
        } else if let Some(r) = l.strip_prefix("joints:") {
            let v = parse_list(r);
            joints = Some([v[0], v[1], v[2], v[3], v[4], v[5]].map(|d: f64| d.to_radians()));
        } else if let Some(r) = l.strip_prefix("pose:") {
            let (Some(p), Some(q)) = (cur, joints) else { continue };
            let t0 = r.find("translation:").unwrap();
            let tb = r[t0..].find('[').unwrap() + t0;
            let te = r[tb..].find(']').unwrap() + tb;
            let t = parse_list(&r[tb..=te]);
            let q0 = r.find("quaternion:").unwrap();
            let qb = r[q0..].find('[').unwrap() + q0;
            let qe = r[qb..].find(']').unwrap() + qb;
            let qq = parse_list(&r[qb..=qe]); // x y z w
            let want = Iso::new(quat_to_m3(qq[3], qq[0], qq[1], qq[2]), [t[0], t[1], t[2]]);
            let got = fkref::fk(&p, &q);
            let (dp, da) = pose_dist(&got, &want);
            worst = (worst.0.max(dp), worst.1.max(da));
            n += 1;
        }
    }
    rep.set("oracle_cross_validation_cases", json!(n));
    rep.set("oracle_cross_validation_worst", json!([worst.0, worst.1]));
    if n < 2000 || worst.0 > 1e-6 || worst.1 > 1e-6 {
        rep.machinery_errors.push(format!(
            "FK_ref disagrees with the recorded reference cases: n={n} worst={worst:?}"
        ));
    }
}

pub fn run(ctx: &Ctx) -> Report {
    let robots = robots(ctx);
    let ax = joint_axes(ctx);
    let sizes: Vec<usize> = std::iter::once(robots.len()).chain(ax.iter().map(|a| a.len())).collect();
    let n = par::product(&sizes);
    let mut rep = par::run(n, |idx, r| {
        let mut ix = [0usize; 7];
        par::decode(idx, &sizes, &mut ix);
        let p = &robots[ix[0]];
        let q = [ax[0][ix[1]], ax[1][ix[2]], ax[2][ix[3]], ax[3][ix[4]], ax[4][ix[5]], ax[5][ix[6]]];
        r.states += 1;
        r.transitions += 8; // forward + 7 forward_with_joint_poses
        let fails = eval(p, &q);
        let tcp = fkref::fk(p, &q).t;
        r.sig(format!("tcp-cell {:.0},{:.0},{:.0}", tcp[0] * 2.0, tcp[1] * 2.0, tcp[2] * 2.0));
        if idx % 400_003 == 0 {
            r.sample(|| case_json(p, &q));
        }
        for (k, d) in fails {
            r.fail(k, idx, case_json(p, &q), d);
        }
    });
    validate_oracle(&mut rep);
    rep.traces_validated = rep.states;
    rep.rule = "product lattice robots(geometry x 64 sign patterns x offsets + presets) x joint lattice incl. |q|>>2pi; \
                every point runs forward and forward_with_joint_poses on the real code and compares with FK_ref; \
                a signature is the 0.5 m cell of the TCP"
        .into();
    rep.set("axes", json!({"robots": robots.len(), "joint_axis_sizes": ax.iter().map(|a| a.len()).collect::<Vec<_>>() }));
    rep.set("tolerances", json!({"pos_m": POS_TOL, "ang_rad": ANG_TOL, "separation_m": SEP_TOL}));
    rep.assumptions.push("lattice-relative: values outside the printed axes are not covered".into());
    rep
}

pub fn replay(case: &Value) -> Vec<String> {
    let p = params_from_json(&case["params"]);
    let q = as_arr6(&case["joints"]);
    eval(&p, &q).into_iter().map(|(k, d)| format!("{k}: {d}")).collect()
}
