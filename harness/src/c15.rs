//! C15 — the Jacobian equals the geometric one; velocities / torques are its inverse / transpose.

use crate::c01::user_joints;
use crate::common::ev::*;
use crate::common::fkref;
use crate::common::m3::*;
use crate::common::par;
use crate::common::robots::*;
use nalgebra::{Isometry3, Matrix6, Translation3, UnitQuaternion, Vector3, Vector6};
use rs_opw_kinematics::jacobian::Jacobian;
use rs_opw_kinematics::kinematic_traits::Joints;
use rs_opw_kinematics::kinematics_impl::OPWKinematics;
use rs_opw_kinematics::parameters::opw_kinematics::Parameters;
use rs_opw_kinematics::parallelogram::Parallelogram;
use rs_opw_kinematics::tool::{Base, Tool};
use serde_json::{json, Value};
use std::sync::Arc;

const EPSS: [f64; 3] = [1e-7, 1e-6, 1e-5];

fn stack_isos(variant: usize) -> (Iso, Iso) {
    let g = Iso::new(mmul(&rotx(0.4), &mmul(&roty(-0.9), &rotz(1.3))), [0.2, -0.1, 0.3]);
    let t = Iso::new(mmul(&roty(0.5), &rotz(-0.7)), [0.05, 0.1, 0.25]);
    match variant {
        0 => (Iso::identity(), Iso::identity()),
        1 => (Iso::identity(), t),
        2 => (g, Iso::identity()),
        4 | 6 | 7 => (Iso::identity(), t),
        5 => (g, Iso::identity()),
        _ => (g, t),
    }
}

/// parallelogram coupling (driven, coupled, scaling) of the stack variant: inner[coupled] = q[coupled] - s*q[driven]
fn stack_para(variant: usize) -> Option<(usize, usize, f64)> {
    match variant {
        4 => Some((1, 2, 1.0)),
        5 => Some((0, 5, -0.5)),
        6 => Some((1, 2, 0.5)),
        7 => Some((1, 2, 1.0)),
        _ => None,
    }
}

fn variant_name(v: usize) -> &'static str {
    ["bare", "tool", "base", "base+tool", "para+tool", "base+para", "halfpara+tool", "tool+para"][v]
}

/// limits: 0 none; 1 + 2k: joint k exactly at its upper limit; 2 + 2k: joint k exactly at its lower limit
fn robot_with_limits(p: &Parameters, q: &Joints, limits: usize) -> OPWKinematics {
    if limits == 0 {
        return OPWKinematics::new(*p);
    }
    let k = (limits - 1) / 2;
    let mut from = q.map(|x| x - 1.0);
    let mut to = q.map(|x| x + 1.0);
    if (limits - 1) % 2 == 0 {
        to[k] = q[k];
    } else {
        from[k] = q[k];
    }
    OPWKinematics::new_with_constraints(*p, rs_opw_kinematics::constraints::Constraints::new(from, to, 0.0))
}

fn jac(p: &Parameters, variant: usize, q: &Joints, eps: f64, limits: usize) -> Jacobian {
    let (b, t) = stack_isos(variant);
    let robot = robot_with_limits(p, q, limits);
    match variant {
        0 => Jacobian::new(&robot, q, eps),
        1 => Jacobian::new(&Tool { robot: Arc::new(robot), tool: to_na(&t) }, q, eps),
        2 => Jacobian::new(&Base { robot: Arc::new(robot), base: to_na(&b) }, q, eps),
        4 | 6 => {
            let (driven, coupled, scaling) = stack_para(variant).unwrap();
            Jacobian::new(&Tool { robot: Arc::new(Parallelogram { robot: Arc::new(robot), scaling, driven, coupled }), tool: to_na(&t) }, q, eps)
        }
        // the unusual order: the parallelogram wrapped around a robot that already wears the tool
        7 => {
            let (driven, coupled, scaling) = stack_para(7).unwrap();
            Jacobian::new(&Parallelogram { robot: Arc::new(Tool { robot: Arc::new(robot), tool: to_na(&t) }), scaling, driven, coupled }, q, eps)
        }
        5 => {
            let (driven, coupled, scaling) = stack_para(5).unwrap();
            Jacobian::new(&Parallelogram { robot: Arc::new(Base { robot: Arc::new(robot), base: to_na(&b) }), scaling, driven, coupled }, q, eps)
        }
        _ => Jacobian::new(&Tool { robot: Arc::new(Base { robot: Arc::new(robot), base: to_na(&b) }), tool: to_na(&t) }, q, eps),
    }
}

fn twist_iso(x: &[f64; 6]) -> Isometry3<f64> {
    Isometry3::from_parts(
        Translation3::new(x[0], x[1], x[2]),
        UnitQuaternion::from_scaled_axis(Vector3::new(x[3], x[4], x[5])),
    )
}

pub fn eval(p: &Parameters, variant: usize, q: &Joints, eps: f64, limits: usize) -> Result<(Vec<(String, String)>, String), &'static str> {
    let (b, t) = stack_isos(variant);
    let jg = match stack_para(variant) {
        None => fkref::geometric_jacobian(p, q, &b, &t),
        Some((d, c, s)) => {
            // chain rule through the coupling: the driven joint also turns the coupled one by -s
            let mut inner = *q;
            inner[c] -= s * q[d];
            let mut m = fkref::geometric_jacobian(p, &inner, &b, &t);
            for r in 0..6 {
                m[r][d] -= s * m[r][c];
            }
            m
        }
    };
    let jg_na = Matrix6::from_fn(|r, c| jg[r][c]);
    let sv = jg_na.svd(false, false).singular_values;
    let (smax, smin) = (sv.max(), sv.min());
    if !(smin > 0.0 && smax / smin < 1e3) {
        return Err("ill-conditioned");
    }
    let cond = smax / smin;
    let mut fails = Vec::new();
    let tag = format!("{}/eps{:e}{}", variant_name(variant), eps, match limits { 0 => "", l if (l - 1) % 2 == 0 => "/joint-at-upper-limit", _ => "/joint-at-lower-limit" });
    // an unrelated robot's Jacobian at the same joints first (a quarter of the evaluations): nothing may carry over
    if (q[1].to_bits() ^ q[3].to_bits().rotate_left(23) ^ eps.to_bits()) % 4 == 0 {
        let decoy = OPWKinematics::new(make(0.07, 0.03, -0.02, [0.33, 0.41, 0.39, 0.06], [-1, 1, 1, -1, 1, -1], [0.1, -0.2, 0.3, 0.0, 0.5, -0.4], 6));
        let _ = Jacobian::new(&decoy, q, eps);
    }
    let j = jac(p, variant, q, eps, limits);
    let reach = 1.0 + p.a1.abs() + p.a2.abs() + p.b.abs() + p.c1.abs() + p.c2.abs() + p.c3.abs() + p.c4.abs() + norm(t.t) + norm(b.t);
    let bound = eps * reach + 4e-15 * reach / eps;
    // rows of J through the public API: torques_from_vector(e_k) = J^T e_k
    let mut jm = [[0.0; 6]; 6];
    for k in 0..6 {
        let mut e = Vector6::zeros();
        e[k] = 1.0;
        let row = j.torques_from_vector(&e);
        jm[k] = row;
    }
    let mut worst = 0.0f64;
    let mut at = (0, 0);
    for r in 0..6 {
        for c in 0..6 {
            let d = (jm[r][c] - jg[r][c]).abs();
            if !(d <= worst) {
                worst = d;
                at = (r, c);
            }
        }
    }
    if !(worst <= bound) {
        fails.push((
            format!("C15/jacobian-entry/{}/{tag}", if at.0 < 3 { "linear" } else { "angular" }),
            format!("J[{},{}] = {} but the geometric Jacobian has {} (bound {bound:e})", at.0, at.1, jm[at.0][at.1], jg[at.0][at.1]),
        ));
    }
    // velocities: J_geo * qdot reproduces the twist
    let twists: [[f64; 6]; 8] = [
        [1.0, 0.0, 0.0, 0.0, 0.0, 0.0],
        [0.0, 1.0, 0.0, 0.0, 0.0, 0.0],
        [0.0, 0.0, 1.0, 0.0, 0.0, 0.0],
        [0.0, 0.0, 0.0, 1.0, 0.0, 0.0],
        [0.0, 0.0, 0.0, 0.0, 1.0, 0.0],
        [0.0, 0.0, 0.0, 0.0, 0.0, 1.0],
        [0.3, -0.2, 0.5, 0.7, -0.4, 0.1],
        [-1.0, 2.0, 0.25, -0.3, 0.6, -1.2],
    ];
    for (ti, x) in twists.iter().enumerate() {
        let xv = Vector6::from_row_slice(x);
        let Ok(qd) = j.velocities_from_vector(&xv) else {
            fails.push((format!("C15/velocities-error/{tag}"), "velocities_from_vector failed on a well-conditioned posture".into()));
            continue;
        };
        let qdn = qd.iter().fold(0.0f64, |a, b| a.max(b.abs()));
        let mut err = 0.0f64;
        for r in 0..6 {
            let got: f64 = (0..6).map(|c| jg[r][c] * qd[c]).sum();
            err = err.max((got - x[r]).abs());
        }
        let tol = 12.0 * bound * qdn + 1e-9 * cond;
        if !(err <= tol) {
            fails.push((
                format!("C15/velocities-do-not-reproduce-twist/{tag}"),
                format!("twist {ti}: J*qdot misses the requested twist by {err:e} (tolerance {tol:e}, cond {cond:.1})"),
            ));
        }
        // isometry-based entry point agrees with the vector-based one
        match j.velocities(&twist_iso(x)) {
            Ok(qi) => {
                let d = (0..6).map(|i| (qi[i] - qd[i]).abs()).fold(0.0, f64::max);
                if !(d <= 1e-9 * (1.0 + qdn) * cond) {
                    fails.push((format!("C15/velocities-iso-vs-vector/{tag}"), format!("twist {ti}: entry points differ by {d:e}")));
                }
            }
            Err(_) => fails.push((format!("C15/velocities-iso-error/{tag}"), "velocities failed".into())),
        }
        // the same rigid motion written with the other quaternion (-q), and as a product of two half-turn-sized rotations
        // (scalar part negative): equal isometries must give equal velocities
        {
            let iso = twist_iso(x);
            let neg = Isometry3::from_parts(iso.translation, UnitQuaternion::new_unchecked(-iso.rotation.into_inner()));
            let axis = Vector3::new(x[3], x[4], x[5]);
            let composed = if axis.norm() > 0.0 {
                let u = nalgebra::Unit::new_normalize(axis);
                let a = UnitQuaternion::from_axis_angle(&u, std::f64::consts::PI);
                let b = UnitQuaternion::from_axis_angle(&u, std::f64::consts::PI + axis.norm());
                Some(Isometry3::from_parts(iso.translation, a * b))
            } else {
                None
            };
            for (form, alt) in [("negated-quaternion", Some(neg)), ("composed-rotations", composed)] {
                let Some(alt) = alt else { continue };
                match j.velocities(&alt) {
                    Ok(qa) => {
                        let d = (0..6).map(|i| (qa[i] - qd[i]).abs()).fold(0.0, f64::max);
                        if !(d <= 1e-9 * (1.0 + qdn) * cond) {
                            fails.push((format!("C15/velocities-iso-vs-vector/{form}/{tag}"), format!("twist {ti}: the {form} form of the same isometry gives velocities {d:e} away")));
                        }
                    }
                    Err(_) => fails.push((format!("C15/velocities-iso-error/{form}/{tag}"), "velocities failed".into())),
                }
            }
        }
        if x[3] == 0.0 && x[4] == 0.0 && x[5] == 0.0 {
            match j.velocities_fixed(x[0], x[1], x[2]) {
                Ok(qf) => {
                    if (0..6).any(|i| qf[i].to_bits() != qd[i].to_bits()) {
                        fails.push((format!("C15/velocities-fixed-vs-vector/{tag}"), format!("twist {ti}: velocities_fixed differs from the vector form")));
                    }
                }
                Err(_) => fails.push((format!("C15/velocities-fixed-error/{tag}"), "velocities_fixed failed".into())),
            }
        }
        // torques = J^T * wrench, both entry points
        let tv = j.torques_from_vector(&xv);
        let ti_ = j.torques(&twist_iso(x));
        let fn_ = x.iter().fold(0.0f64, |a, b| a.max(b.abs()));
        for c in 0..6 {
            let want: f64 = (0..6).map(|r| jg[r][c] * x[r]).sum();
            if !((tv[c] - want).abs() <= 6.0 * bound * fn_ + 1e-12) {
                fails.push((
                    format!("C15/torques-not-transpose/{tag}"),
                    format!("wrench {ti}: torque {} is {} but J^T F gives {want}", c + 1, tv[c]),
                ));
                break;
            }
            if !((tv[c] - ti_[c]).abs() <= 1e-9 * (1.0 + fn_) * reach) {
                fails.push((format!("C15/torques-iso-vs-vector/{tag}"), format!("wrench {ti}: entry points differ on joint {}", c + 1)));
                break;
            }
        }
    }
    Ok((fails, format!("{}:cond<{}", variant_name(variant), 10f64.powf(cond.log10().ceil()))))
}

pub fn run(ctx: &Ctx) -> Report {
    let thorough = !ctx.quick();
    let robots: Vec<Parameters> = if thorough { robot_axis(1, &[6]).into_iter().step_by(3).collect() } else { robot_axis(0, &[6]) };
    let ax: [Vec<f64>; 6] = if thorough {
        [vec![0.4, -2.4, 3.0], vec![-0.9, 0.5, 1.4], vec![-1.9, 0.8, 0.3], vec![0.3, -1.3, 2.9], vec![0.6, -1.2, 2.2], vec![0.2, 2.5]]
    } else {
        [vec![0.4, -2.4], vec![-0.9, 0.5], vec![-1.9, 0.8], vec![0.3, -1.3], vec![0.6, -1.2, 0.05], vec![0.2]]
    };
    let sizes: Vec<usize> = [robots.len(), 8, EPSS.len(), 13].into_iter().chain(ax.iter().map(|a| a.len())).collect();
    let n = par::product(&sizes);
    let mut rep = par::run(n, |idx, r| {
        let mut ix = [0usize; 10];
        par::decode(idx, &sizes, &mut ix);
        let p = &robots[ix[0]];
        let th = [ax[0][ix[4]], ax[1][ix[5]], ax[2][ix[6]], ax[3][ix[7]], ax[4][ix[8]], ax[5][ix[9]]];
        let mut q = user_joints(p, &th);
        // whole turns on top of the lattice posture: the same posture for a serial chain, a different one under a
        // coupling with a non-integer ratio
        let turns = (idx as usize / 13) % 3;
        if turns > 0 {
            for (i, x) in q.iter_mut().enumerate() {
                *x += [0.0, 2.0 * std::f64::consts::PI, -2.0 * std::f64::consts::PI][(turns + i) % 3];
            }
        }
        let limits = ix[3];
        // limit variants rotate over the lattice in the quick tier (every posture sees a few of them)
        if !thorough && limits != 0 && (idx as usize / 13 + limits) % 4 != 0 {
            return;
        }
        let case = || json!({"params": params_json(p), "variant": ix[1], "q": nums(&q), "eps": EPSS[ix[2]], "limits": limits});
        match eval(p, ix[1], &q, EPSS[ix[2]], limits) {
            Err(_) => r.skipped_precondition += 1,
            Ok((fails, sig)) => {
                r.states += 1;
                r.transitions += 7 + 8 * 4;
                r.sig(format!("{sig}:limits{}", if limits == 0 { "none" } else if (limits - 1) % 2 == 0 { "upper" } else { "lower" }));
                if idx % 20_011 == 0 {
                    r.sample(case);
                }
                for (k, d) in fails {
                    r.fail(k, idx, case(), d);
                }
            }
        }
    });
    // --- threshold sweep: every differencing step of the ladder inside the documented 1e-7..1e-5 range, and joint values a
    // ladder magnitude away from 0 and from +-pi (where an angle normalisation would bite)
    {
        let lad = crate::common::ladder::ladder(&["jacobian.rs"]);
        let steps: Vec<f64> = lad.iter().cloned().filter(|e| *e >= 1e-7 && *e <= 1e-5).collect();
        let srobots = [robots[0], robots[robots.len() / 2], robots[robots.len() - 1]];
        let ssizes = [lad.len(), 3, 7, srobots.len(), 2];
        let sn = par::product(&ssizes);
        let srep = par::run(sn, |idx, r| {
            let mut ix = [0usize; 5];
            par::decode(idx, &ssizes, &mut ix);
            let p = &srobots[ix[3]];
            let mut q = user_joints(p, &[0.4, -0.9, 0.8, 0.3, -1.2, 0.2]);
            let d = lad[ix[0]];
            let (eps, tag) = match ix[1] {
                0 => {
                    if !(d >= 1e-7 && d <= 1e-5) {
                        return;
                    }
                    (d, "step")
                }
                1 => {
                    for (i, x) in q.iter_mut().enumerate() {
                        if i % 2 == ix[4] {
                            *x = d * if i < 3 { 1.0 } else { -1.0 };
                        }
                    }
                    (1e-6, "joint-near-zero")
                }
                _ => {
                    for (i, x) in q.iter_mut().enumerate() {
                        if i % 2 == ix[4] {
                            *x = if i < 3 { std::f64::consts::PI - d } else { -std::f64::consts::PI + d };
                        }
                    }
                    (1e-6, "joint-near-pi")
                }
            };
            let case = || json!({"params": params_json(p), "variant": ix[2], "q": nums(&q), "eps": eps, "limits": 0});
            match eval(p, ix[2], &q, eps, 0) {
                Err(_) => r.skipped_precondition += 1,
                Ok((fails, sig)) => {
                    r.states += 1;
                    r.transitions += 7 + 8 * 4;
                    r.sig(format!("ladder:{tag}:{sig}"));
                    for (k, dd) in fails {
                        r.fail(format!("{k}/{tag}"), n + idx, case(), dd);
                    }
                }
            }
        });
        rep.merge(srep);
        rep.set("threshold_sweep", json!({"ladder_values": lad.len(), "steps_in_documented_range": steps.len(), "kinds": ["step", "joint-near-zero", "joint-near-pi"]}));
    }
    // --- discontinuity sweep: the pose returned by forward() carries a quaternion whose sign jumps on certain surfaces of
    // joint space. Along every joint line through a few postures those jumps are located by bisection and the Jacobian is
    // evaluated with the differencing step straddling the jump.
    {
        use rs_opw_kinematics::kinematic_traits::Kinematics;
        let srobots = [robots[0], robots[robots.len() / 2], robots[robots.len() - 1]];
        let bases: [[f64; 6]; 3] = [[0.4, -0.9, 0.8, 0.3, -1.2, 0.2], [-2.4, 0.5, -1.9, -1.3, 0.6, 2.5], [1.0, 1.4, 0.3, 2.9, 2.2, -0.7]];
        let mut found = 0u64;
        let mut case_no = n + 50_000_000;
        for p in srobots.iter() {
            let robot = OPWKinematics::new(*p);
            let quat = |q: &Joints| robot.forward(q).rotation.into_inner().coords;
            for b in bases.iter() {
                let q0 = user_joints(p, b);
                for ji in 0..6 {
                    let steps = 1440;
                    let at = |k: usize| {
                        let mut q = q0;
                        q[ji] = -std::f64::consts::PI + 2.0 * std::f64::consts::PI * k as f64 / steps as f64;
                        q
                    };
                    for k in 0..steps {
                        let (qa, qb) = (at(k), at(k + 1));
                        if quat(&qa).dot(&quat(&qb)) >= 0.0 {
                            continue;
                        }
                        // bisect the sign jump
                        let (mut lo, mut hi) = (qa[ji], qb[ji]);
                        let ref_quat = quat(&qa);
                        for _ in 0..60 {
                            let mid = 0.5 * (lo + hi);
                            let mut qm = q0;
                            qm[ji] = mid;
                            if quat(&qm).dot(&ref_quat) >= 0.0 {
                                lo = mid;
                            } else {
                                hi = mid;
                            }
                        }
                        found += 1;
                        for eps in EPSS {
                            // the differencing step of joint ji starts just before the jump and ends after it
                            let mut q = q0;
                            q[ji] = lo - 0.3 * eps;
                            case_no += 1;
                            match eval(p, 0, &q, eps, 0) {
                                Err(_) => rep.skipped_precondition += 1,
                                Ok((fails, sig)) => {
                                    rep.states += 1;
                                    rep.transitions += 7 + 8 * 4;
                                    rep.sig(format!("quaternion-sign-jump:{sig}"));
                                    for (k, dd) in fails {
                                        rep.fail(format!("{k}/quaternion-sign-jump"), case_no, json!({"params": params_json(p), "variant": 0, "q": nums(&q), "eps": eps, "limits": 0}), dd);
                                    }
                                }
                            }
                        }
                    }
                }
            }
        }
        rep.set("quaternion_sign_jumps_located", json!(found));
        if found == 0 && rep.fails.is_empty() {
            // an implementation whose forward() never switches between q and -q has nothing to sweep here: a coverage note
            rep.assumptions.push("no sign jump of the pose quaternion was found along any joint line: the sign-jump sweep of the Jacobian covered nothing".into());
        }
    }
    rep.traces_validated = rep.states;
    rep.rule = "robots R (unconstrained, and constrained with each joint in turn exactly on its upper / lower limit) x stacks {bare, tool, base, base+tool, tool over parallelogram(J2->J3, 1.0 and 0.5), parallelogram(J1->J6, -0.5) over base, parallelogram(J2->J3) over tool} x joint lattice (a third of the postures with whole turns added to some joints) (geometric Jacobian condition number < 1e3, else skipped_precondition) x \
                differencing steps {1e-7,1e-6,1e-5}; the private matrix is read row by row through torques_from_vector(e_k); oracle: geometric Jacobian from \
                FK_ref axes/origins within eps*reach + 4e-15*reach/eps; J_geo*velocities(X) = X on the 6 basis twists + 2 mixed; torques = J_geo^T F; \
                isometry/vector/fixed entry points agree, the isometry also written with the negated quaternion and as a product of two rotations beyond a half turn; discontinuity sweep: sign jumps of forward()'s quaternion located by bisection along 54 joint lines, the differencing step straddling each; threshold sweep: every ladder step inside 1e-7..1e-5, joints a ladder magnitude from 0 / +-pi, all 7 stacks; signature = (stack, condition-number decade)".into();
    rep.set("axes", json!({"robots": robots.len(), "stacks": 7, "eps": EPSS.to_vec(), "theta_axis_sizes": ax.iter().map(|a| a.len()).collect::<Vec<_>>() }));
    rep.assumptions.push("a linear map is decided on a basis: the 6 unit twists/wrenches are exhaustive for the velocity/torque clauses at each lattice posture".into());
    rep
}

pub fn replay(case: &Value) -> Vec<String> {
    let p = params_from_json(&case["params"]);
    match eval(&p, case["variant"].as_u64().unwrap() as usize, &as_arr6(&case["q"]), as_num(&case["eps"]), case["limits"].as_u64().unwrap_or(0) as usize) {
        Ok((f, _)) => f.into_iter().map(|(k, d)| format!("{k}: {d}")).collect(),
        Err(_) => vec![],
    }
}
