//! C04 — continuation IK: nearest 2*pi representative, cost ordering, completeness w.r.t. plain inverse,
//! and branch tracking along trajectories (explicit-state search with stateright).

use crate::c01::user_joints;
use crate::c02::expected_branches;
use crate::common::arc::*;
use crate::common::ev::*;
use crate::common::fkref;
use crate::common::m3::*;
use crate::common::par;
use crate::common::robots::*;
use crate::common::stack::*;
use rs_opw_kinematics::constraints::Constraints;
use rs_opw_kinematics::kinematic_traits::{Joints, Kinematics, CONSTRAINT_CENTERED};
use rs_opw_kinematics::kinematics_impl::OPWKinematics;
use rs_opw_kinematics::parameters::opw_kinematics::Parameters;
use serde_json::{json, Value};
use stateright::{Checker, Model, Property};
use std::f64::consts::PI;
use std::hash::{Hash, Hasher};
use std::sync::Mutex;

const EPS: f64 = 1e-3;

pub struct Case {
    pub params: Parameters,
    pub limits: Option<Limits>,
    pub q: Joints,
    pub prev: Joints,
    pub entry: Entry,
}

impl Case {
    fn json(&self) -> Value {
        json!({"kind": "call", "params": params_json(&self.params),
            "limits": self.limits.map(|l| json!({"from": nums(&l.from), "to": nums(&l.to), "weight": l.weight})),
            "q": nums(&self.q), "prev": nums(&self.prev), "entry": self.entry.name()})
    }
    fn from_json(v: &Value) -> Case {
        let limits = if v["limits"].is_null() {
            None
        } else {
            Some(Limits { from: as_arr6(&v["limits"]["from"]), to: as_arr6(&v["limits"]["to"]), weight: as_num(&v["limits"]["weight"]) })
        };
        Case {
            params: params_from_json(&v["params"]),
            limits,
            q: as_arr6(&v["q"]),
            prev: as_arr6(&v["prev"]),
            entry: Entry::from_name(v["entry"].as_str().unwrap()),
        }
    }
}

fn cost_ref(a: &Joints, prev: &Joints, centres: &Joints, w: f64) -> f64 {
    let dp: f64 = (0..6).map(|i| (a[i] - prev[i]).abs()).sum();
    let dc: f64 = (0..6).map(|i| (a[i] - centres[i]).abs()).sum();
    (1.0 - w) * dp + w * dc
}

pub fn eval(c: &Case) -> (Vec<(String, String)>, String) {
    let mut fails = Vec::new();
    let p = &c.params;
    let robot = match c.limits {
        None => OPWKinematics::new(*p),
        Some(l) => OPWKinematics::new_with_constraints(*p, l.build()),
    };
    let (w, centres) = match c.limits {
        None => (0.0, [0.0; 6]),
        Some(l) => (l.weight, Constraints::new(l.from, l.to, l.weight).centers),
    };
    let sentinel = c.prev[0].is_nan();
    let reference: Joints = if sentinel { centres } else { c.prev };
    let pose = to_na(&fkref::fk(p, &c.q));
    let lim = match c.limits {
        None => "nolimits".to_string(),
        Some(l) => format!("limits-w{}", l.weight),
    };
    let tag = format!("{}/dof{}/{}{}", c.entry.name(), p.dof, lim, if sentinel { "/centered" } else { "" });
    let sols = match call(&robot, c.entry, &pose, &c.prev, 0.0) {
        Ok(s) => s,
        Err(m) => {
            fails.push((format!("C04/panic/{tag}"), m));
            return (fails, "panic".into());
        }
    };
    let five = p.dof == 5 || c.entry == Entry::Continuing5;
    let upto = if five { 5 } else { 6 };
    // (a) nearest representative. J6 of a 5-DOF solve is the value carried over from the previous vector (trivially
    // nearest); under the sentinel the reference is the centre of the J6 range and the carried value must be
    // reported as its representative nearest to that centre, like every other angle
    for s in &sols {
        for i in 0..6 {
            let d = (s[i] - reference[i]).abs();
            if !(d <= PI * (1.0 + 1e-12)) {
                fails.push((
                    format!("C04/not-nearest-representative/{tag}"),
                    format!("joint {} answer {} is {} rad from previous {}", i + 1, s[i], d, reference[i]),
                ));
                break;
            }
        }
    }
    // (b) non-decreasing documented cost
    let mut last = f64::NEG_INFINITY;
    for (i, s) in sols.iter().enumerate() {
        let mut a = *s;
        let mut r = reference;
        if five {
            // J6 is passed through and identical in every answer: it cannot reorder anything
            a[5] = 0.0;
            r[5] = 0.0;
        }
        let cst = cost_ref(&a, &r, &centres, w);
        if cst < last - 1e-12 * (1.0 + last.abs()) {
            fails.push((
                format!("C04/not-sorted/{tag}"),
                format!("answer {i} has cost {cst} after an answer with cost {last}"),
            ));
            break;
        }
        last = cst;
    }
    // (c) every plain-inverse answer is present
    // (5-DOF solves are compared at the same J6: the continuation carries previous J6 through)
    let plain_entry = if five { Entry::FiveDof } else { Entry::Inverse };
    let j6 = c.prev[5];
    if let Ok(plain) = call(&robot, plain_entry, &pose, &c.prev, j6) {
        for s in &plain {
            let found = sols.iter().any(|o| (0..upto).all(|i| circ_dist(o[i], s[i]) <= 1e-9));
            if !found {
                fails.push((
                    format!("C04/plain-answer-missing/{tag}"),
                    format!("{} answer {s:?} is absent from the continuation list of {} answers", plain_entry.name(), sols.len()),
                ));
                break;
            }
        }
    }
    // (d) previous realises the pose, is regular, inside the documented range and within limits => it is first (w = 0)
    if !sentinel && w == 0.0 {
        let realises = (0..upto).all(|i| circ_dist(c.prev[i], c.q[i]) <= 1e-12);
        let in_range = c.prev.iter().all(|x| x.abs() <= 2.0 * PI);
        let th = fkref::internal_angles(p, &c.q);
        let regular = th[4].sin().abs() > 1e-3 && expected_branches(p, &fkref::fk(p, &c.q)).is_some();
        let allowed = match c.limits {
            None => true,
            Some(l) => arc_member6(&l.from, &l.to, &c.prev, 1e-9) == ArcVerdict::Inside,
        };
        if realises && in_range && regular && allowed {
            let ok = sols.first().map_or(false, |f| (0..upto).all(|i| (f[i] - c.prev[i]).abs() <= 1e-6));
            if !ok {
                fails.push((
                    format!("C04/previous-not-first/{tag}"),
                    format!("previous {:?} realises the pose but the first answer is {:?}", c.prev, sols.first()),
                ));
            }
        }
    }
    (fails, format!("{}:{}:n{}", c.entry.name(), lim, sols.len()))
}

fn prev_lattice(q: &Joints, thorough: bool) -> Vec<Joints> {
    let vals = [-2.0 * PI + EPS, -PI, -PI / 2.0, 0.0, PI / 3.0, PI, 2.0 * PI - EPS];
    let mut v: Vec<Joints> = vec![*q, CONSTRAINT_CENTERED];
    // the solution itself moved by whole turns where that stays inside [-2pi, 2pi]
    for sgn in [1.0, -1.0] {
        let mut a = *q;
        for i in 0..6 {
            let x = a[i] + sgn * 2.0 * PI;
            if x.abs() <= 2.0 * PI {
                a[i] = x;
            }
        }
        v.push(a);
    }
    for s in 0..7 {
        v.push(std::array::from_fn(|i| vals[(i + s) % 7]));
        v.push([vals[s]; 6]);
        if thorough {
            v.push(std::array::from_fn(|i| vals[(2 * i + s) % 7]));
            v.push(std::array::from_fn(|i| vals[(3 * i + s) % 7]));
            v.push(std::array::from_fn(|i| vals[(5 * i + 2 * s) % 7]));
        }
    }
    v
}

fn limit_sets(q: &Joints) -> Vec<Option<Limits>> {
    let mut out: Vec<Option<Limits>> = vec![None];
    for w in [0.0, 0.25, 0.5, 1.0] {
        // wide
        out.push(Some(Limits { from: [-3.0; 6], to: [3.0; 6], weight: w }));
        // narrow window around q (wrapped to (-pi,pi])
        let c: Joints = std::array::from_fn(|i| wrap_pi(q[i]));
        out.push(Some(Limits { from: c.map(|x| x - 0.4), to: c.map(|x| x + 0.4), weight: w }));
        // wrapping ranges (from > to), leaving out a window opposite to q
        out.push(Some(Limits { from: c.map(|x| wrap_pi(x + PI + 0.5)), to: c.map(|x| wrap_pi(x + PI - 0.5)), weight: w }));
        // from == to on joints 4 and 6, windows elsewhere
        let mut f = c.map(|x| x - 1.0);
        let mut t = c.map(|x| x + 1.0);
        f[3] = 0.7;
        t[3] = 0.7;
        f[5] = 0.0;
        t[5] = 0.0;
        out.push(Some(Limits { from: f, to: t, weight: w }));
        // [0, 2pi) convention, wrapping through 0: 270 deg .. 260 deg; the centre (445 deg) lies beyond one turn,
        // so answers below -95 deg are more than 3*pi away from it before normalisation
        out.push(Some(Limits { from: [270f64.to_radians(); 6], to: [260f64.to_radians(); 6], weight: w }));
    }
    out
}

fn theta_axes(thorough: bool) -> [Vec<f64>; 6] {
    if !thorough {
        [vec![0.4, -2.4], vec![-0.9, 0.5], vec![-1.9, 0.8], vec![0.0, 2.9, -1.3], vec![0.6, -1.2, 0.0], vec![0.0, -3.0]]
    } else {
        [
            vec![0.4, -2.4, 3.0],
            vec![-0.9, 0.5, 2.2],
            vec![-1.9, 0.8, 2.6],
            vec![0.0, 2.9, -1.3, PI],
            vec![0.6, -1.2, 0.0, 2.4, PI],
            vec![0.0, -3.0, 1.2],
        ]
    }
}

// ------------------------------------------------------------------ E2: trajectories

#[derive(Clone, Debug)]
pub struct TrajState {
    node: [i8; 6],
    returned: [u64; 6], // bits of the joint vector the solver returned (not part of the identity)
    verdict: u8,        // 0 ok, 1 branch switch / wrong representative, 2 empty, 3 lattice too coarse
}
impl PartialEq for TrajState {
    fn eq(&self, o: &Self) -> bool {
        self.node == o.node && self.verdict == o.verdict
    }
}
impl Eq for TrajState {}
impl Hash for TrajState {
    fn hash<H: Hasher>(&self, h: &mut H) {
        self.node.hash(h);
        self.verdict.hash(h);
    }
}

pub struct TrajModel {
    params: Parameters,
    robot: OPWKinematics,
    /// which continuation entry point is driven along the trajectory
    entry: Entry,
    lo: [i8; 6],
    hi: [i8; 6],
    step: [f64; 6],
    origin: [f64; 6],
    start: [i8; 6],
    /// differential oracle: node -> first returned vector; mismatches collected here
    seen: Mutex<std::collections::HashMap<[i8; 6], [f64; 6]>>,
    diffs: Mutex<Vec<String>>,
    transitions: std::sync::atomic::AtomicU64,
}

impl TrajModel {
    fn joints(&self, node: &[i8; 6]) -> Joints {
        std::array::from_fn(|i| self.origin[i] + self.step[i] * node[i] as f64)
    }
    fn step_once(&self, prev: &Joints, target_node: &[i8; 6]) -> (u8, Joints) {
        let target = self.joints(target_node);
        let pose = to_na(&fkref::fk(&self.params, &target));
        let five = self.entry == Entry::Continuing5 || self.params.dof == 5;
        let sols = match self.entry {
            Entry::Continuing5 => self.robot.inverse_continuing_5dof(&pose, prev),
            _ => self.robot.inverse_continuing(&pose, prev),
        };
        self.transitions.fetch_add(1, std::sync::atomic::Ordering::Relaxed);
        let Some(first) = sols.first() else {
            return (2, target);
        };
        let upto = if five { 5 } else { 6 };
        if five && first[5].to_bits() != prev[5].to_bits() {
            return (1, *first); // J6 must be carried through unchanged
        }
        if (0..upto).all(|i| (first[i] - target[i]).abs() <= 1e-6) {
            return (0, *first);
        }
        if (0..upto).all(|i| circ_dist(first[i], target[i]) <= 1e-6) {
            return (1, *first); // same branch, wrong 2*pi representative
        }
        // another branch came first: legitimate only if it really is closer to prev than the target
        let near: Joints = std::array::from_fn(|i| prev[i] + wrap_pi(first[i] - prev[i]));
        let c_other: f64 = (0..upto).map(|i| (near[i] - prev[i]).abs()).sum();
        let c_target: f64 = (0..upto).map(|i| (target[i] - prev[i]).abs()).sum();
        if c_other < c_target {
            (3, *first)
        } else {
            (1, *first)
        }
    }
}

#[derive(Clone, Copy, Debug, PartialEq, Eq, Hash)]
pub struct Move {
    joint: u8,
    up: bool,
}

impl Model for TrajModel {
    type State = TrajState;
    type Action = Move;
    fn init_states(&self) -> Vec<TrajState> {
        let q = self.joints(&self.start);
        vec![TrajState { node: self.start, returned: q.map(f64::to_bits), verdict: 0 }]
    }
    fn actions(&self, s: &TrajState, out: &mut Vec<Move>) {
        if s.verdict != 0 {
            return;
        }
        for j in 0..6u8 {
            if s.node[j as usize] < self.hi[j as usize] {
                out.push(Move { joint: j, up: true });
            }
            if s.node[j as usize] > self.lo[j as usize] {
                out.push(Move { joint: j, up: false });
            }
        }
    }
    fn next_state(&self, s: &TrajState, a: Move) -> Option<TrajState> {
        let mut node = s.node;
        node[a.joint as usize] += if a.up { 1 } else { -1 };
        let prev: Joints = s.returned.map(f64::from_bits);
        let (verdict, ret) = self.step_once(&prev, &node);
        if verdict == 0 {
            let mut seen = self.seen.lock().unwrap();
            match seen.get(&node) {
                None => {
                    seen.insert(node, ret);
                }
                Some(first) => {
                    if !(0..6).all(|i| (first[i] - ret[i]).abs() <= 1e-9) {
                        self.diffs.lock().unwrap().push(format!(
                            "node {node:?} reached with {first:?} on one path and {ret:?} via {:?}+{a:?}",
                            s.node
                        ));
                    }
                }
            }
        }
        Some(TrajState { node, returned: ret.map(f64::to_bits), verdict })
    }
    fn properties(&self) -> Vec<Property<Self>> {
        vec![
            Property::always("tracks trajectory", |_, s: &TrajState| s.verdict != 1 && s.verdict != 2),
            Property::always("lattice fine enough", |_, s: &TrajState| s.verdict != 3),
        ]
    }
}

/// variant 0: 6-DOF continuation, no limits; 1: 6-DOF continuation under limits that contain the lattice (weight 0);
/// 2: inverse_continuing_5dof on the 6-DOF robot; 3: the same geometry declared dof = 5, driven through inverse_continuing
fn traj_model(p: &Parameters, fine: bool, variant: usize) -> TrajModel {
    // user-joint lattice: J4 and J6 cover almost +-2pi so representatives are exercised;
    // J5 is offset so that no node is wrist singular; J2/J3 keep the elbow bent.
    let d = PI / 180.0;
    let (n4, s4) = if fine { (8i8, 40.0 * d) } else { (5i8, 60.0 * d) };
    let th0 = [0.2, 0.3, 0.9, 0.0, 0.0, 0.0];
    let mut origin = user_joints(p, &th0);
    // J5 lattice in *internal* angle: 20,35,50 degrees (never singular); account for sign/offset
    let j5 = |t: f64| (t + p.offsets[4]) * p.sign_corrections[4] as f64;
    origin[4] = j5(35.0 * d);
    let step5 = (j5(50.0 * d) - j5(35.0 * d)).abs();
    origin[3] = 0.0;
    origin[5] = 0.0;
    let mut params = *p;
    if variant == 3 {
        params.dof = 5;
    }
    let five = variant >= 2;
    let robot = if variant == 1 {
        // limits wider than the lattice on every joint, centred off zero on J4 / J6
        let from: Joints = std::array::from_fn(|i| origin[i] - if i == 3 || i == 5 { 6.0 } else { 1.0 });
        let to: Joints = std::array::from_fn(|i| origin[i] + if i == 3 || i == 5 { 6.2 } else { 1.0 });
        OPWKinematics::new_with_constraints(params, Constraints::new(from, to, 0.0))
    } else {
        OPWKinematics::new(params)
    };
    // in the 5-DOF variants J6 is carried through, so it is not a lattice axis
    let n6 = if five { 0 } else { n4 };
    TrajModel {
        params,
        robot,
        entry: if variant == 2 { Entry::Continuing5 } else { Entry::Continuing },
        lo: [-1, -1, -1, -n4, -1, -n6],
        hi: [1, 1, 1, n4, 1, n6],
        step: [10.0 * d, 10.0 * d, 10.0 * d, s4, step5, s4],
        origin,
        start: [0; 6],
        seen: Mutex::new(Default::default()),
        diffs: Mutex::new(Vec::new()),
        transitions: Default::default(),
    }
}

fn run_trajectories(p: &Parameters, fine: bool, variant: usize, rep: &mut Report, order: u64) {
    let mut counts = Vec::new();
    for _round in 0..2 {
        let model = traj_model(p, fine, variant);
        let checker = model.checker().threads(16).spawn_bfs().join();
        let unique = checker.unique_state_count() as u64;
        let generated = checker.state_count() as u64;
        counts.push((unique, generated));
        let m = checker.model();
        let trans = m.transitions.load(std::sync::atomic::Ordering::Relaxed);
        if _round == 0 {
            rep.states += unique;
            rep.transitions += trans;
            rep.traces_validated += trans;
            rep.sig(format!("trajectory-graph:variant{variant}:{}", unique));
            for (name, path) in checker.discoveries() {
                let actions: Vec<Value> = path
                    .clone()
                    .into_actions()
                    .iter()
                    .map(|a| json!({"joint": a.joint, "up": a.up}))
                    .collect();
                let last = path.last_state().clone();
                let case = json!({"kind": "trajectory", "params": params_json(p), "fine": fine, "variant": variant, "moves": actions});
                if name == "tracks trajectory" {
                    rep.fail(
                        format!("C04/trajectory-branch-switch/{}", ["6dof", "6dof-with-limits", "5dof-entry", "dof5-robot"][variant]),
                        order,
                        case,
                        format!(
                            "after {} single-joint steps the first answer {:?} is not the trajectory point of node {:?} (verdict {})",
                            path.into_actions().len(),
                            last.returned.map(f64::from_bits),
                            last.node,
                            last.verdict
                        ),
                    );
                } else {
                    rep.machinery_errors.push(format!("trajectory lattice too coarse for {:?}: another branch is genuinely closer", last.node));
                }
            }
            let diffs = m.diffs.lock().unwrap();
            if let Some(d) = diffs.first() {
                rep.fail(
                    format!("C04/trajectory-path-dependence/dof{}", p.dof),
                    order,
                    json!({"kind": "trajectory", "params": params_json(p), "fine": fine, "variant": variant, "moves": []}),
                    format!("{} nodes answer differently depending on the path; first: {d}", diffs.len()),
                );
            }
        }
    }
    if counts[0].0 != counts[1].0 {
        rep.machinery_errors.push(format!("state graph not deterministic: unique-state counts {counts:?}"));
    }
    rep.add_extra_count("trajectory_graph_states", counts[0].0);
    rep.add_extra_count("trajectory_graph_generated_states", counts[0].1);
}

fn replay_trajectory(p: &Parameters, fine: bool, variant: usize, moves: &[Value]) -> Vec<String> {
    // plain replay without the explorer
    let m = traj_model(p, fine, variant);
    let mut node = m.start;
    let mut prev = m.joints(&node);
    for (i, mv) in moves.iter().enumerate() {
        let j = mv["joint"].as_u64().unwrap() as usize;
        node[j] += if mv["up"].as_bool().unwrap() { 1 } else { -1 };
        let (verdict, ret) = m.step_once(&prev, &node);
        if verdict == 1 || verdict == 2 {
            return vec![format!(
                "C04/trajectory-branch-switch: step {} to node {:?}: first answer {:?}, trajectory point {:?} (verdict {})",
                i + 1,
                node,
                ret,
                m.joints(&node),
                verdict
            )];
        }
        prev = ret;
    }
    vec![]
}

pub fn run(ctx: &Ctx) -> Report {
    let thorough = !ctx.quick();
    let robots: Vec<Parameters> = if thorough { robot_axis(1, &[6, 5]).into_iter().step_by(9).collect() } else { robot_axis(0, &[6, 5]) };
    let ax = theta_axes(thorough);
    let sizes: Vec<usize> = std::iter::once(robots.len()).chain(ax.iter().map(|a| a.len())).collect();
    let n = par::product(&sizes);
    let mut rep = par::run(n, |idx, r| {
        let mut ix = [0usize; 7];
        par::decode(idx, &sizes, &mut ix);
        let p = &robots[ix[0]];
        let th = [ax[0][ix[1]], ax[1][ix[2]], ax[2][ix[3]], ax[3][ix[4]], ax[4][ix[5]], ax[5][ix[6]]];
        let q = user_joints(p, &th);
        r.states += 1;
        let lims = limit_sets(&q);
        for (li, lim) in lims.iter().enumerate() {
            // quick tier: all limit sets on a rotating subset of poses
            if !thorough && li > 0 && (li + idx as usize) % 4 != 0 {
                continue;
            }
            for (pi, prev) in prev_lattice(&q, thorough).iter().enumerate() {
                for entry in [Entry::Continuing, Entry::Continuing5] {
                    let c = Case { params: *p, limits: *lim, q, prev: *prev, entry };
                    let (fails, sig) = eval(&c);
                    r.transitions += 2;
                    r.sig(sig);
                    if (idx as usize + li + pi) % 100_003 == 0 {
                        r.sample(|| c.json());
                    }
                    for (k, d) in fails {
                        r.fail(k, idx, c.json(), d);
                    }
                }
            }
        }
    });
    rep.traces_validated = rep.transitions;
    // E2: trajectories on a few robots (deterministic order, each graph searched twice)
    let traj_robots: Vec<Parameters> = {
        let all = robot_axis(0, &[6]);
        let mut v = vec![all[0], all[6], all[12], all[all.len() - 5]];
        if thorough {
            v.extend(all.iter().skip(1).step_by(4).cloned());
        }
        v
    };
    for (i, p) in traj_robots.iter().enumerate() {
        // every robot: the plain 6-DOF graph; the other variants rotate over the robots (all of them in the thorough tier)
        run_trajectories(p, thorough, 0, &mut rep, n + i as u64);
        for variant in 1..4 {
            if thorough || variant == 1 + i % 3 {
                run_trajectories(p, thorough, variant, &mut rep, n + 100 * variant as u64 + i as u64);
            }
        }
    }
    rep.rule = "E1: robots R (dof 5/6) x theta lattice x previous lattice in [-2pi,2pi]^6 (solution, +-turns, 7-value diagonals and rotations, \
                CONSTRAINT_CENTERED) x limit sets {none, wide, window, wrapping, from==to, 270..260 deg in the [0,2pi) convention (centre beyond one turn)} x weights {0,.25,.5,1} x {inverse_continuing, \
                inverse_continuing_5dof}; oracle: |answer-previous| <= pi per joint, documented cost non-decreasing, every plain-inverse answer \
                present, previous first when it realises the pose. E2 (stateright BFS, run twice): states = nodes of a 6-D joint lattice \
                (J4/J6 across +-2pi), 12 single-joint moves, each transition calls inverse_continuing(FK_ref(next), previously returned \
                vector); invariant: first answer is the trajectory point; differential: same node via two paths => same answer (1e-9); graph variants: no limits, limits containing the lattice, inverse_continuing_5dof, a dof = 5 robot (J6 carried through)".into();
    rep.set("axes", json!({"robots": robots.len(), "theta_axis_sizes": ax.iter().map(|a| a.len()).collect::<Vec<_>>(),
        "trajectory_robots": traj_robots.len()}));
    rep.assumptions.push("trajectory state identity is the lattice node; returned vectors that agree within 1e-9 are merged (checked on every transition)".into());
    rep
}

pub fn replay(case: &Value) -> Vec<String> {
    if case["kind"] == "trajectory" {
        let p = params_from_json(&case["params"]);
        return replay_trajectory(&p, case["fine"].as_bool().unwrap_or(false), case["variant"].as_u64().unwrap_or(0) as usize, case["moves"].as_array().unwrap());
    }
    let c = Case::from_json(case);
    eval(&c).0.into_iter().map(|(k, d)| format!("{k}: {d}")).collect()
}
