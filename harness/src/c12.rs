//! C12 — a planned Cartesian stroke is collision-free, in limits, continuous and linear; success does not
//! depend on the schedule of the strategy race (E1 scenarios + E4 controlled scheduler + rayon conformance).

use crate::common::arc::*;
use crate::common::cell::*;
use crate::common::ev::*;
use crate::common::m3::*;
use crate::common::par;
use crate::common::sched::*;
use crate::common::stack::{panic_message, Limits};
use rs_opw_kinematics::cartesian::{AnnotatedJoints, Cartesian, PathFlags, DEFAULT_TRANSITION_COSTS};
use rs_opw_kinematics::kinematic_traits::{Joints, Kinematics, Pose};
use rs_opw_kinematics::kinematics_with_shape::KinematicsWithShape;
use rs_opw_kinematics::rrt::RRTPlanner;
use rs_opw_kinematics::utils::transition_costs;
use rs_opw_kinematics::verif_hooks;
use serde_json::{json, Value};
use std::collections::BTreeSet;
use std::panic::{catch_unwind, AssertUnwindSafe};
use std::sync::Arc;

// tool pointing straight down: q2 + q3 + q5 = pi
pub const Q_LAND: Joints = [0.0, 0.5, 1.2, 0.0, std::f64::consts::PI - 1.7, 0.0];
pub const Q_LAND_TILTED: Joints = [0.4, 0.3, 1.3, 0.5, 1.0, 0.2];

#[derive(Clone, Debug, PartialEq)]
pub struct Scenario {
    pub start: usize,     // 0 = the landing configuration itself, 1 nearby, 2 far
    pub stroke: usize,    // number of stroke poses 0..3
    pub cornered: bool,   // stroke turns a corner instead of running straight
    pub step_m: usize,    // index into STEP_M
    pub step_rad: usize,  // index into STEP_RAD
    pub cost: usize,      // index into COSTS
    pub depth: usize,     // index into DEPTHS
    pub interp: bool,     // include_linear_interpolation
    pub obstacle: usize,  // 0 free, 1 grazing (1.1 r), 2 inside safety (0.9 r), 3 blocks a segment midpoint, 4 blocks one landing branch, 5 blocks everything,
                          // 6 blocks the second arm branch of the tilted landing pose mid-stroke only (its landing solution stays free)
    pub safety: usize,    // 0 touch, 1 3 cm
    pub limits: usize,    // 0 wide, 1 tight
    pub rrt_try: usize,   // max_try of the RRT planner
    pub rng: usize,       // RRT step: 0 -> 0.25 rad, 1 -> 0.8 rad (sample draws are the constant 1/2)
    pub land: usize,      // 0 tool straight down (2 wrist-flip strategies), 1 tilted posture (4 strategies over two arm branches)
    pub coef: usize,      // transition coefficients: 0 the library default, 1 stricter on every joint, 2 base joint only
    pub turn: usize,      // 1: the legs after the first are 2 cm long and turn the tool by 0.7 rad about its axis (rotation needs more check steps than translation); 2: every second stroke pose repeats the one before it and the parking pose is the last stroke pose (consecutive identical poses)
}

pub const STEP_M: [f64; 3] = [0.02, 0.05, 1.0];
pub const STEP_RAD: [f64; 2] = [0.05, 0.5];
pub const COSTS: [f64; 3] = [0.02, 0.2, 10.0];
pub const DEPTHS: [usize; 3] = [0, 2, 5];
pub const COEFS: [[f64; 6]; 3] = [DEFAULT_TRANSITION_COSTS, [6.0, 6.0, 6.0, 5.0, 5.0, 5.0], [8.0, 0.0, 0.0, 0.0, 0.0, 0.0]];

impl Scenario {
    pub fn json(&self) -> Value {
        json!({"start": self.start, "stroke": self.stroke, "cornered": self.cornered, "step_m": self.step_m, "step_rad": self.step_rad, "cost": self.cost,
            "depth": self.depth, "interp": self.interp, "obstacle": self.obstacle, "safety": self.safety, "limits": self.limits, "rrt_try": self.rrt_try, "rng": self.rng, "land": self.land, "turn": self.turn, "coef": self.coef})
    }
    pub fn from_json(v: &Value) -> Scenario {
        let u = |k: &str| v[k].as_u64().unwrap() as usize;
        Scenario { start: u("start"), stroke: u("stroke"), cornered: v["cornered"].as_bool().unwrap(), step_m: u("step_m"), step_rad: u("step_rad"), cost: u("cost"),
            depth: u("depth"), interp: v["interp"].as_bool().unwrap(), obstacle: u("obstacle"), safety: u("safety"), limits: u("limits"), rrt_try: u("rrt_try"), rng: u("rng"), land: v["land"].as_u64().unwrap_or(0) as usize, turn: v["turn"].as_u64().unwrap_or(0) as usize, coef: v["coef"].as_u64().unwrap_or(0) as usize }
    }
    fn easy() -> Scenario {
        Scenario { start: 1, stroke: 2, cornered: false, step_m: 0, step_rad: 0, cost: 2, depth: 2, interp: true, obstacle: 0, safety: 0, limits: 0, rrt_try: 4, rng: 0, land: 0, turn: 0, coef: 0 }
    }
}

pub struct Built {
    pub cell: CellDesc,
    pub robot: KinematicsWithShape,
    pub from: Joints,
    pub land: Iso,
    pub steps: Vec<Iso>,
    pub park: Iso,
}

pub fn build(s: &Scenario) -> Built {
    let mut cell = CellDesc::standard();
    cell.safety = if s.safety == 0 { SafetyDesc::touch(0) } else { SafetyDesc { to_env: 0.03, to_robot: 0.03, special: vec![], mode: 0 } };
    cell.limits = if s.limits == 0 {
        // wider than +-pi so that wrist-flipped twins (J4 +- pi, J6 -+ pi) are legal strategies
        Limits { from: [-3.3; 6], to: [3.3; 6], weight: 0.0 }
    } else {
        Limits { from: [-1.2, -0.6, -0.4, -1.5, -1.0, -1.5], to: [1.2, 1.6, 2.0, 1.5, 1.8, 1.5], weight: 0.0 }
    };
    let q_land = if s.land == 1 || s.obstacle == 4 || s.obstacle == 6 { Q_LAND_TILTED } else { Q_LAND };
    let land = cell.tcp(&q_land);
    // stroke: 5 cm legs from the landing pose, first down (-z), then along y (straight) or x then y (cornered)
    let leg = 0.05;
    let mut steps = Vec::new();
    let mut cur = land;
    for k in 0..s.stroke {
        let d: V3 = if k == 0 {
            [0.0, 0.0, -leg]
        } else if s.cornered && k % 2 == 0 {
            [leg, 0.0, 0.0]
        } else {
            [0.0, leg, 0.0]
        };
        cur = if s.turn == 2 && k % 2 == 1 {
            cur // dwell: the same pose again
        } else if s.turn == 1 && k > 0 { Iso::new(mmul(&cur.r, &rotz(0.7)), add(cur.t, scale(d, 0.4))) } else { Iso::new(cur.r, add(cur.t, d)) };
        steps.push(cur);
    }
    // dwell scenarios also park where the stroke ends (no lift-off)
    let park = if s.turn == 2 { cur } else { Iso::new(cur.r, add(cur.t, [0.0, 0.0, leg])) };
    let from = match s.start {
        0 => q_land,
        1 => std::array::from_fn(|i| q_land[i] + [0.1, -0.1, -0.1, 0.1, -0.14, -0.1][i]),
        _ => [-0.8, 0.0, 0.3, 0.0, 0.5, 0.0],
    };
    // obstacles are placed relative to the tool tip at the landing configuration
    let tip = land.t;
    let r: f32 = if s.safety == 0 { 0.0 } else { 0.03 };
    let bx = |lo: V3, hi: V3| EnvObj { lo: [lo[0] as f32, lo[1] as f32, lo[2] as f32], hi: [hi[0] as f32, hi[1] as f32, hi[2] as f32], subdiv: 1, pose: Iso::identity(), shape: 0 };
    cell.envs = match s.obstacle {
        // a plate under the stroke: the tool tip passes `gap` above it on the lowest leg
        1 | 2 => {
            let gap = if s.obstacle == 1 { 1.1 * r as f64 + 0.004 } else { 0.9 * r as f64 - 0.002 };
            let top = tip[2] - if s.stroke > 0 { leg } else { 0.0 } - gap;
            vec![bx([tip[0] - 0.3, tip[1] - 0.3, top - 0.02], [tip[0] + 0.3, tip[1] + 0.4, top])]
        }
        // a thin fin crossing the first leg half way down, reaching the tool from the side
        3 => vec![bx([tip[0] + 0.005, tip[1] - 0.2, tip[2] - 0.03], [tip[0] + 0.3, tip[1] + 0.2, tip[2] - 0.02])],
        // a block where the elbow of the landing configuration's own branch sits (other branches stay free)
        4 => {
            // the other arm branch of the tilted landing pose (shoulder further forward, elbow folded back)
            let alt: Joints = [0.4, 1.6, -1.3, 0.51, 2.17, 0.8];
            let elbow = cell.link_poses(&alt)[2].t;
            vec![bx([elbow[0] - 0.04, elbow[1] - 0.2, elbow[2] - 0.04], [elbow[0] + 0.04, elbow[1] + 0.2, elbow[2] + 0.04])]
        }
        // a slab through the whole working volume
        5 => vec![bx([-2.0, -2.0, tip[2] - 0.1], [2.0, 2.0, tip[2] + 0.3])],
        // a small cube just ahead of where the elbow of the *other* arm branch travels during the first stroke leg
        6 => {
            let alt: Joints = [0.4, 1.6, -1.3, 0.51, 2.17, 0.8];
            let target = steps.first().copied().unwrap_or(park);
            let probe = cell.kinematics();
            let alt_land = probe.inverse_continuing(&to_na(&land), &alt).into_iter().next().unwrap_or(alt);
            let alt_stroke = probe.inverse_continuing(&to_na(&target), &alt_land).into_iter().next().unwrap_or(alt_land);
            let (e0, e1) = (cell.link_poses(&alt_land)[2], cell.link_poses(&alt_stroke)[2]);
            // centre of the elbow box in its frame is (0,0,0.025), half extents (0.05,0.05,0.075)
            let (c0, c1) = (e0.apply([0.0, 0.0, 0.025]), e1.apply([0.0, 0.0, 0.025]));
            let d = sub(c1, c0);
            let len = norm(d);
            if len < 5e-3 {
                vec![]
            } else {
                let dir = scale(d, 1.0 / len);
                let h = (0..3).map(|k| dot(dir, col(&e0.r, k)).abs() * [0.05, 0.05, 0.075][k]).sum::<f64>();
                let half = 0.02;
                let c = add(c0, scale(dir, h + half + 0.4 * len));
                vec![bx([c[0] - half, c[1] - half, c[2] - half], [c[0] + half, c[1] + half, c[2] + half])]
            }
        }
        _ => vec![],
    };
    let robot = cell.robot();
    Built { cell, robot, from, land, steps, park }
}

fn unit_draw(rng: usize) -> u64 {
    let k: u64 = if rng == 0 { 1u64 << 51 } else { 1u64 << 50 };
    k << 12
}

fn planner<'a>(s: &Scenario, robot: &'a KinematicsWithShape) -> Cartesian<'a> {
    Cartesian {
        robot,
        check_step_m: STEP_M[s.step_m],
        check_step_rad: STEP_RAD[s.step_rad],
        max_transition_cost: COSTS[s.cost],
        transition_coefficients: COEFS[s.coef],
        linear_recursion_depth: DEPTHS[s.depth],
        rrt: RRTPlanner { step_size_joint_space: if s.rng == 1 { 0.8 } else { 0.25 }, max_try: s.rrt_try, debug: false },
        include_linear_interpolation: s.interp,
        debug: false,
    }
}

pub type PlanResult = Result<Vec<AnnotatedJoints>, String>;

/// Runs the real planner (strategy race on rayon unless a controller is armed).
pub fn plan(s: &Scenario, b: &Built) -> Result<PlanResult, String> {
    let p = planner(s, &b.robot);
    let steps: Vec<Pose> = b.steps.iter().map(to_na).collect();
    catch_unwind(AssertUnwindSafe(|| p.plan(&b.from, &to_na(&b.land), steps, &to_na(&b.park)))).map_err(|e| panic_message(&e))
}

/// The same request with the other unit quaternion (q and -q are one rotation) on every second pose after the landing
/// pose: land as given, stroke poses 0, 2, .. negated, the parking pose negated when it follows an un-negated pose.
pub fn plan_negated(s: &Scenario, b: &Built) -> Result<PlanResult, String> {
    let p = planner(s, &b.robot);
    let neg = |i: &Iso| {
        let mut x = to_na(i);
        x.rotation = nalgebra::UnitQuaternion::new_unchecked(-x.rotation.into_inner());
        x
    };
    let steps: Vec<Pose> = b.steps.iter().enumerate().map(|(k, st)| if k % 2 == 0 { neg(st) } else { to_na(st) }).collect();
    let park = if b.steps.len() % 2 == 0 { neg(&b.park) } else { to_na(&b.park) };
    catch_unwind(AssertUnwindSafe(|| p.plan(&b.from, &to_na(&b.land), steps, &park))).map_err(|e| panic_message(&e))
}

static THOROUGH: std::sync::atomic::AtomicBool = std::sync::atomic::AtomicBool::new(false);

fn has(f: &PathFlags, bit: PathFlags) -> bool {
    f.contains(bit)
}

/// Oracle on a successful plan. `gap_closing_used`: some strategy started more than one RRT (onboarding + gap closing).
pub fn judge_path(s: &Scenario, b: &Built, path: &[AnnotatedJoints], gap_closing: Option<bool>) -> Vec<(String, String)> {
    // Some(false): no strategy used RRT gap closing, so everything after LAND is the Cartesian phase; None: unknown
    let pure_cartesian = gap_closing == Some(false);
    let mut fails = Vec::new();
    let cell = &b.cell;
    let obst = format!("obstacle{}", s.obstacle);
    // (1) every waypoint free and within limits
    let mut all_mode = cell.clone();
    all_mode.safety.mode = 1;
    for (i, w) in path.iter().enumerate() {
        if b.robot.collides(&w.joints) {
            let dist = cell.pair_distances(&w.joints);
            let (hit, _) = pairs_ref(&dist, &cell.safety);
            fails.push((
                format!("C12/waypoint-collides/{obst}/{}", if has(&w.flags, PathFlags::LIN_INTERP) { "interpolated" } else { "original-or-rrt" }),
                format!("waypoint {i} {:?} collides (brute-force pairs {hit:?})", w.joints),
            ));
            break;
        }
    }
    for (i, w) in path.iter().enumerate() {
        if arc_member6(&cell.limits.from, &cell.limits.to, &w.joints, 1e-9) == ArcVerdict::Outside {
            fails.push(("C12/waypoint-outside-limits".to_string(), format!("waypoint {i} {:?} violates the joint limits", w.joints)));
            break;
        }
    }
    // (2) starts at the given configuration; a LAND waypoint solves the landing pose
    match path.first() {
        Some(w) if w.joints.map(f64::to_bits) == b.from.map(f64::to_bits) => {}
        other => fails.push((
            "C12/does-not-start-at-given-configuration".to_string(),
            format!("path starts at {:?}, the given start is {:?}", other.map(|w| w.joints), b.from),
        )),
    }
    // (3) LAND, TRACE.., PARK embed in order with their flags and poses
    let mut wanted: Vec<(PathFlags, &Iso, &str)> = vec![(PathFlags::LAND, &b.land, "LAND")];
    for st in &b.steps {
        wanted.push((PathFlags::TRACE, st, "TRACE"));
    }
    wanted.push((PathFlags::PARK, &b.park, "PARK"));
    let mut anchors: Vec<usize> = Vec::new();
    let mut at = 0usize;
    for (flag, pose, name) in &wanted {
        let mut found = None;
        for i in at..path.len() {
            if has(&path[i].flags, *flag) {
                let (dp, da) = pose_dist(&cell.tcp(&path[i].joints), pose);
                if dp <= 1e-6 * (1.0 + 1e-3) && da <= 1e-6 * (1.0 + 1e-3) {
                    found = Some(i);
                    break;
                }
            }
        }
        match found {
            Some(i) => {
                anchors.push(i);
                at = i + 1;
            }
            None => {
                fails.push((
                    format!("C12/pose-not-reproduced/{name}"),
                    format!("no waypoint after index {at} carries {name} and reproduces that pose (anchors so far {anchors:?}, {} waypoints)", path.len()),
                ));
                break;
            }
        }
    }
    // (6) interpolated waypoints only when requested
    if !s.interp {
        if let Some((i, _)) = path.iter().enumerate().find(|(_, w)| has(&w.flags, PathFlags::LIN_INTERP)) {
            fails.push(("C12/interpolated-waypoints-not-requested".to_string(), format!("waypoint {i} carries LIN_INTERP although include_linear_interpolation is false")));
        }
    }
    // (6') in a purely Cartesian run every waypoint after LAND is either one of the given poses or an interpolated
    // pose; the latter must carry LIN_INTERP, and must be absent altogether when interpolation was not requested
    if pure_cartesian && anchors.len() == wanted.len() {
        for i in anchors[0] + 1..path.len() {
            if anchors.contains(&i) {
                continue;
            }
            if !s.interp {
                fails.push((
                    "C12/unrequested-interpolated-waypoint-without-flag".to_string(),
                    format!("waypoint {i} (flags {:#b}) lies between the given poses although interpolation was not requested and no RRT leg was used", path[i].flags.bits()),
                ));
                break;
            }
            if !has(&path[i].flags, PathFlags::LIN_INTERP) {
                fails.push((
                    "C12/interpolated-waypoint-not-flagged".to_string(),
                    format!("waypoint {i} (flags {:#b}) is an intermediate Cartesian waypoint but does not carry LIN_INTERP", path[i].flags.bits()),
                ));
                break;
            }
        }
    }
    // (3') TRACE means "directly matches one of the stroke poses given in the input" (its documentation), LAND / PARK the
    // landing / parking pose: in a run without RRT legs (whose nodes inherit the flags of the pose they lead to) every
    // waypoint that carries one of these flags must reproduce a pose of that kind
    if pure_cartesian && anchors.len() == wanted.len() {
        for i in anchors[0]..path.len() {
            for (flag, name) in [(PathFlags::TRACE, "TRACE"), (PathFlags::PARK, "PARK"), (PathFlags::LAND, "LAND")] {
                if !has(&path[i].flags, flag) {
                    continue;
                }
                let here = cell.tcp(&path[i].joints);
                let matches = wanted.iter().filter(|w| w.2 == name).any(|w| {
                    let (dp, da) = pose_dist(&here, w.1);
                    dp <= 1e-6 * (1.0 + 1e-3) && da <= 1e-6 * (1.0 + 1e-3)
                });
                if !matches {
                    fails.push((
                        format!("C12/flag-without-its-pose/{name}"),
                        format!("waypoint {i} (flags {:#b}) carries {name} but reproduces none of the given {name} poses", path[i].flags.bits()),
                    ));
                    break;
                }
            }
        }
    }
    // (4) interpolated waypoints lie on the segment between the original poses around them
    if anchors.len() == wanted.len() {
        for k in 0..anchors.len() - 1 {
            let (a, z) = (wanted[k].1.t, wanted[k + 1].1.t);
            let seg = sub(z, a);
            let len2 = dot(seg, seg);
            let mut last_t = -1e-9;
            for i in anchors[k] + 1..anchors[k + 1] {
                if !has(&path[i].flags, PathFlags::LIN_INTERP) {
                    continue;
                }
                // orientation: between the two original orientations (on the shortest turn from one to the other)
                {
                    let (ra, rz, ri) = (&wanted[k].1.r, &wanted[k + 1].1.r, cell.tcp(&path[i].joints).r);
                    let (whole, first, second) = (rot_angle(ra, rz), rot_angle(ra, &ri), rot_angle(&ri, rz));
                    if whole < 3.0 && !(first + second <= whole + 5e-6) {
                        fails.push((
                            "C12/interpolated-waypoint-orientation-off-segment".to_string(),
                            format!("waypoint {i} is turned {first} rad from original pose {k} and {second} rad from pose {}, which are {whole} rad apart", k + 1),
                        ));
                        break;
                    }
                }
                let p = cell.tcp(&path[i].joints).t;
                let t = if len2 > 0.0 { dot(sub(p, a), seg) / len2 } else { 0.0 };
                let foot = add(a, scale(seg, t));
                let off = dist(p, foot);
                if !(off <= 2e-6) || !(t >= -1e-6 && t <= 1.0 + 1e-6) || !(t >= last_t - 1e-6) {
                    fails.push((
                        "C12/interpolated-waypoint-off-segment".to_string(),
                        format!("waypoint {i} is {off:e} m off the segment between original poses {k} and {}, parameter {t} (previous {last_t})", k + 1),
                    ));
                    break;
                }
                last_t = t;
            }
        }
        // (5) transition cost between consecutive Cartesian waypoints
        if s.interp && pure_cartesian {
            let lim = COSTS[s.cost] * (1.0 + 1e-12);
            for i in anchors[0]..anchors[anchors.len() - 1] {
                // documented cost: weighted sum of the joint differences, with the coefficients the planner was configured with
                let c: f64 = (0..6).map(|k| (path[i].joints[k] - path[i + 1].joints[k]).abs() * COEFS[s.coef][k]).sum();
                if !(c <= lim) {
                    fails.push((
                        "C12/transition-cost-exceeded".to_string(),
                        format!("waypoints {i} -> {} differ by cost {c}, the limit is {}", i + 1, COSTS[s.cost]),
                    ));
                    break;
                }
            }
        }
    }
    fails
}

fn gap_closing_in(events: &[(usize, &'static str)]) -> bool {
    let mut per: std::collections::BTreeMap<usize, usize> = Default::default();
    for (i, l) in events {
        if *l == "rrt.start" {
            *per.entry(*i).or_default() += 1;
        }
    }
    per.values().any(|&c| c > 1)
}

/// E1: one scenario on free-running rayon with the recorder on.
pub fn eval_scenario(s: &Scenario, with_recorder: bool) -> (Vec<(String, String)>, String) {
    let b = build(s);
    let mut fails = Vec::new();
    if b.robot.collides(&b.from) {
        return (fails, "start-collides".into());
    }
    if with_recorder {
        verif_hooks::arm_recorder();
    }
    let res = plan(s, &b);
    // gap closing is known exactly with the recorder; with the generous cost limit a transition can only fail on an
    // unreachable pose, which RRT cannot close either, so an Ok path had none
    let gap = if with_recorder {
        Some(gap_closing_in(&verif_hooks::disarm_recorder()))
    } else if s.cost == 2 {
        Some(false)
    } else {
        None
    };
    // the same request with the quaternion of every second pose negated (the same rotations): a successful plan must
    // satisfy the same clauses. On half of the scenarios where bisection can occur (tight cost limit with recursion allowed), on every
    // scenario in the thorough tier. Success itself is not promised by the statement: an outcome that differs between
    // the two spellings is recorded in the signature, not judged
    let mut sign_note = "";
    let thorough = THOROUGH.load(std::sync::atomic::Ordering::Relaxed);
    if thorough || (s.cost < 2 && s.depth > 0 && (s.start + s.stroke + s.obstacle + s.step_m) % 2 == 0) {
        match plan_negated(s, &b) {
            Err(m) => fails.push(("C12/panic/negated-quaternions".to_string(), m)),
            Ok(other) => {
                if let (Ok(mine), theirs) = (&res, &other) {
                    if mine.is_ok() != theirs.is_ok() {
                        sign_note = ":outcome-differs-with-negated-quaternions";
                    }
                }
                if let Ok(path) = other {
                    for (k, d) in judge_path(s, &b, &path, if s.cost == 2 { Some(false) } else { None }) {
                        fails.push((format!("{k}/negated-quaternions"), d));
                    }
                }
            }
        }
    }
    match res {
        Err(m) => {
            fails.push(("C12/panic".to_string(), m));
            (fails, "panic".into())
        }
        Ok(Err(e)) => {
            if *s == Scenario::easy() || (s.obstacle == 0 && s.limits == 0 && s.cost == 2 && s.rrt_try >= 4 && s.start <= 1) {
                fails.push(("C12/easy-scenario-fails".to_string(), format!("free cell, wide limits, generous cost: planning failed with {e}")));
            }
            (fails, format!("err:obstacle{}{sign_note}", s.obstacle))
        }
        Ok(Ok(path)) => {
            fails.extend(judge_path(s, &b, &path, gap));
            let n_interp = path.iter().filter(|w| has(&w.flags, PathFlags::LIN_INTERP)).count();
            (fails, format!("ok:obstacle{}:interp{}:n{}{sign_note}", s.obstacle, if n_interp > 0 { "yes" } else { "no" }, (path.len() / 4) * 4))
        }
    }
}

// ------------------------------------------------------------------ E4

pub struct SchedOutcome {
    pub runs: usize,
    pub cut: bool,
    pub capped: bool,
    pub outcomes: BTreeSet<bool>,
    pub projections: BTreeSet<Vec<Vec<&'static str>>>,
    pub fails: Vec<(String, String, Value)>,
    pub strategies: usize,
    pub steps: u64,
}

fn projection(events: &[(usize, &'static str)], n: usize) -> Vec<Vec<&'static str>> {
    let mut v = vec![Vec::new(); n];
    for (i, l) in events {
        if *i < n && !l.starts_with("start") && !l.starts_with("end") {
            v[*i].push(*l);
        }
    }
    v
}

pub fn explore_schedules(s: &Scenario, bound: Option<usize>, cap: usize) -> SchedOutcome {
    let b = build(s);
    let n_strat = b.robot.inverse_continuing(&to_na(&b.land), &b.from).len();
    let mut out = SchedOutcome { runs: 0, cut: false, capped: false, outcomes: BTreeSet::new(), projections: BTreeSet::new(), fails: vec![], strategies: n_strat, steps: 0 };
    let mut results: Vec<(Vec<usize>, bool, Vec<(String, String)>, Option<String>, Vec<Vec<&'static str>>, usize)> = Vec::new();
    let (runs, cut, capped) = explore(
        bound,
        cap,
        |prefix| {
            let ctl = Arc::new(TokenController::new(prefix));
            verif_hooks::arm_controller(ctl.clone());
            let res = plan(s, &b);
            verif_hooks::disarm_controller();
            let rec = ctl.record();
            let gap = gap_closing_in(&rec.events);
            let (ok, fails) = match &res {
                Err(m) => (false, vec![("C12/panic".to_string(), m.clone())]),
                Ok(Err(_)) => (false, vec![]),
                Ok(Ok(path)) => (true, judge_path(s, &b, path, Some(gap))),
            };
            results.push((prefix.to_vec(), ok, fails, rec.divergence.clone(), projection(&rec.events, n_strat), rec.events.len()));
            rec
        },
        |_, _| {},
    );
    out.runs = runs;
    out.cut = cut;
    out.capped = capped;
    for (prefix, ok, fails, div, proj, nev) in results {
        out.outcomes.insert(ok);
        out.projections.insert(proj);
        out.steps += nev as u64;
        let case = json!({"kind": "schedule", "scenario": s.json(), "choices": prefix});
        if let Some(d) = div {
            out.fails.push(("C12/machinery/replay-divergence".into(), d, case.clone()));
        }
        for (k, d) in fails {
            out.fails.push((k, d, case.clone()));
        }
    }
    if out.outcomes.len() > 1 {
        out.fails.push((
            "C12/success-depends-on-schedule".into(),
            format!("planning succeeds under some schedules of the strategy race and fails under others ({} strategies, {} schedules)", n_strat, runs),
            json!({"kind": "schedule-set", "scenario": s.json()}),
        ));
    }
    out
}

/// Real rayon, recorder on: every observed per-strategy label sequence tuple must be one of the explored ones.
fn conformance(s: &Scenario, explored: &SchedOutcome) -> (u64, Vec<(String, String, Value)>, Vec<String>) {
    let b = build(s);
    let mut fails = Vec::new();
    let mut matched = 0u64;
    // free-running traces that no explored schedule reproduces: the code has scheduling points the hooks do not cover (an
    // un-hooked load of the flag, say). That limits what E4 covers and is reported as such; it is not a verdict about the
    // property, which is judged on the outcome and the path of every run, explored or free-running.
    let mut gaps: Vec<String> = Vec::new();
    for threads in [1usize, 2, 4, 8, 16] {
        for _rep in 0..4 {
            let pool = rayon::ThreadPoolBuilder::new().num_threads(threads).build().unwrap();
            verif_hooks::arm_recorder();
            let res = pool.install(|| plan(s, &b));
            let events = verif_hooks::disarm_recorder();
            let ok = matches!(res, Ok(Ok(_)));
            let proj = projection(&events, explored.strategies);
            if explored.projections.contains(&proj) {
                matched += 1;
            } else if !explored.cut && !explored.capped {
                gaps.push(format!("a {threads}-thread rayon run produced per-strategy hook sequences {proj:?} that no explored schedule has"));
            }
            if !explored.outcomes.contains(&ok) {
                fails.push((
                    "C12/success-depends-on-schedule".to_string(),
                    format!("{threads}-thread rayon run: success = {ok}, explored schedules gave {:?}", explored.outcomes),
                    json!({"kind": "scenario", "scenario": s.json()}),
                ));
            }
            if let Ok(Ok(path)) = &res {
                for (k, d) in judge_path(s, &b, path, Some(gap_closing_in(&events))) {
                    fails.push((k, d, json!({"kind": "scenario", "scenario": s.json()})));
                }
            }
        }
    }
    (matched, fails, gaps)
}

fn sched_scenarios(thorough: bool) -> Vec<(Scenario, Option<usize>)> {
    let e = Scenario::easy();
    // cheap plans (coarse checks, long RRT steps): the schedule space is what is explored here
    let c = Scenario { step_m: 2, step_rad: 1, rng: 1, stroke: 1, ..e.clone() };
    let mut v = vec![
        // two wrist-flip strategies, whole interleaving space
        (Scenario { obstacle: 0, ..c.clone() }, None),
        // obstacle 4 blocks one arm branch of the tilted landing pose: strategies with real, differing outcomes
        (Scenario { obstacle: 4, ..c.clone() }, Some(1)),
        // four strategies, all succeeding: thread orders only in the quick tier (bound 0), bound 2 in the thorough one below
        (Scenario { obstacle: 0, land: 1, ..c.clone() }, Some(if thorough { 1 } else { 0 })),
        // four strategies of which the two on the second arm branch fail mid-stroke: real, differing outcomes
        (Scenario { obstacle: 6, ..c.clone() }, Some(1)),
    ];
    if thorough {
        v.push((Scenario { obstacle: 0, stroke: 2, start: 2, ..c.clone() }, None));
        v.push((Scenario { obstacle: 4, stroke: 2, ..c.clone() }, Some(2)));
        v.push((Scenario { obstacle: 0, land: 1, ..c.clone() }, Some(2)));
        v.push((Scenario { obstacle: 3, stroke: 2, rng: 0, step_m: 0, ..c.clone() }, None));
    }
    v
}

pub fn debug_strategies() {
    for q in [Q_LAND, [0.0, 0.2, 1.0, 0.0, std::f64::consts::PI - 1.2, 0.0], [0.4, 0.3, 1.3, 0.5, 1.0, 0.2], [0.0, -0.2, 1.9, 0.0, std::f64::consts::PI - 1.7, 0.0]] {
        let mut cell = CellDesc::standard();
        cell.safety.mode = 1;
        let robot = cell.robot();
        let pose = to_na(&cell.tcp(&q));
        let all = robot.kinematics.inverse_continuing(&pose, &q);
        eprintln!("posture {q:?}: {} IK answers", all.len());
        for s in &all {
            eprintln!("   {:?} collides={} {:?}", s.map(|x| (x * 100.0).round() / 100.0), robot.collides(s), robot.collision_details(s));
        }
    }
}

pub fn run(ctx: &Ctx) -> Report {
    let thorough = !ctx.quick();
    THOROUGH.store(thorough, std::sync::atomic::Ordering::Relaxed);
    if std::env::var("VERIF_DEBUG").is_ok() {
        debug_strategies();
    }
    verif_hooks::arm_global_script(Box::new(|_| 1u64 << 63));
    // E1 scenario lattice. Full product on the axes that interact; the rest rotate.
    let sizes = [3usize, 4, 2, 3, 2, 3, 3, 2, 7, 2, 2];
    let n = par::product(&sizes);
    let stride: u64 = if thorough { 1 } else { 7 };
    let mut rep = par::run(n / stride + 1, |k, r| {
        let idx = k * stride + (k % stride.max(1)) % stride;
        if idx >= n {
            return;
        }
        let mut ix = [0usize; 11];
        par::decode(idx, &sizes, &mut ix);
        let s = Scenario {
            start: ix[0], stroke: ix[1], cornered: ix[2] == 1, step_m: ix[3], step_rad: ix[4], cost: ix[5], depth: ix[6], interp: ix[7] == 1,
            obstacle: ix[8], safety: ix[9], limits: ix[10], rrt_try: [4, 1, 0][(ix[0] + ix[5]) % 3], rng: 0, land: (ix[1] + ix[3]) % 2, turn: [1, 0, 2][(ix[0] + ix[3] + ix[6]) % 3], coef: [0, 1, 0, 2][(ix[1] + ix[5] + ix[7]) % 4],
        };
        let (fails, sig) = eval_scenario(&s, false);
        r.states += 1;
        r.transitions += 1;
        r.sig(sig);
        if idx % 5003 == 0 {
            r.sample(|| s.json());
        }
        for (key, d) in fails {
            r.fail(key, idx, json!({"kind": "scenario", "scenario": s.json()}), d);
        }
    });
    // Sequential pass with the event recorder (one plan at a time): tight cost limits, where bisection and RRT gap
    // closing both occur; knowing which happened lets the cost / flag clauses be judged exactly.
    {
        let mut seq = 0u64;
        for idx in 0..n {
            let mut ix = [0usize; 11];
            par::decode(idx, &sizes, &mut ix);
            // cost limit 0.02 or 0.2, recursion allowed, every 5th (quick) scenario of that sub-lattice
            if ix[5] == 2 || ix[6] == 0 || ix[8] > 3 {
                continue;
            }
            seq += 1;
            if seq % (if thorough { 2 } else { 18 }) != 0 {
                continue;
            }
            let s = Scenario {
                start: ix[0], stroke: ix[1], cornered: ix[2] == 1, step_m: ix[3], step_rad: ix[4], cost: ix[5], depth: ix[6], interp: ix[7] == 1,
                obstacle: ix[8], safety: ix[9], limits: ix[10], rrt_try: 4, rng: 0, land: (ix[1] + ix[3]) % 2, turn: [1, 0, 2][(ix[0] + ix[3] + ix[6]) % 3], coef: [0, 1, 0, 2][(ix[1] + ix[5] + ix[7]) % 4],
            };
            let (fails, sig) = eval_scenario(&s, true);
            rep.states += 1;
            rep.transitions += 1;
            rep.sig(format!("recorded:{sig}"));
            for (key, d) in fails {
                rep.fail(key, n + 100 + idx, json!({"kind": "scenario", "scenario": s.json()}), d);
            }
        }
    }
    verif_hooks::disarm_global_script();

    // E4 + conformance (one plan at a time: the controller is process-wide)
    let mut sched_summary = Vec::new();
    for (i, (s, bound)) in sched_scenarios(thorough).into_iter().enumerate() {
        verif_hooks::arm_global_script(Box::new(move |_| unit_draw(0)));
        let out = explore_schedules(&s, bound, if thorough { 60_000 } else { 6_000 });
        let (matched, cfails, gaps) = conformance(&s, &out);
        if !gaps.is_empty() {
            rep.caps_hit.push(format!(
                "schedule exploration of scenario {i}: {} of 20 free-running rayon runs show hook sequences outside the explored set (scheduling points not covered by the hooks); first: {}",
                gaps.len(),
                gaps[0]
            ));
        }
        verif_hooks::disarm_global_script();
        rep.states += out.runs as u64;
        rep.transitions += out.steps;
        rep.traces_validated += matched;
        rep.sig(format!("schedules:strategies{}:outcomes{:?}", out.strategies, out.outcomes));
        if out.capped {
            rep.caps_hit.push(format!("schedule exploration of scenario {i} capped at {} runs", out.runs));
        }
        sched_summary.push(json!({"scenario": s.json(), "strategies": out.strategies, "schedules": out.runs, "preemption_bound": bound,
            "bound_cut_something": out.cut, "distinct_traces": out.projections.len(), "outcomes": out.outcomes.iter().collect::<Vec<_>>(),
            "rayon_runs_matched": matched, "rayon_runs_outside_explored_set": gaps.len()}));
        for (k, d, case) in out.fails.into_iter().chain(cfails.into_iter()) {
            rep.fail(k, n + i as u64, case, d);
        }
    }
    rep.set("schedule_exploration", json!(sched_summary));
    rep.traces_validated += rep.states;
    rep.rule = "E1: scenarios = start {landing configuration, nearby, far} x stroke {0..3 poses} x {straight, cornered} (a third of the scenarios with short legs that turn the tool by 0.7 rad, so rotation dictates the check steps; a third with repeated stroke poses and parking on the last stroke pose) x check steps x cost limits x transition coefficients {default, stricter on all joints, base joint only} x recursion depths x \
                include-interpolation x obstacles {free, grazing 1.1r, inside 0.9r, fin across a leg, block on one landing branch, slab} x safety x limits, RRT \
                draws scripted to a constant; oracle on Ok: waypoints free (collides + brute-force pairs) and within limits, path[0] = given start, LAND/TRACE/PARK \
                embed in order with pose reproduced by the reference FK, LIN_INTERP waypoints on the segment, transition cost, no LIN_INTERP unless requested; \
                E4: all interleavings (preemption-bounded where stated) of the strategy race at the stop-flag hook points under a token-passing controller, \
                success must not depend on the schedule; rayon pools 1..16 must reproduce explored per-strategy traces".into();
    rep.set("axes", json!({"scenario_axes": sizes.to_vec(), "stride": stride}));
    rep.assumptions.push("the controller is sequentially consistent; the stop flag is monotone, so a relaxed stale read equals an explored schedule in which the load precedes the store".into());
    rep
}

pub fn replay(case: &Value) -> Vec<String> {
    let s = Scenario::from_json(&case["scenario"]);
    match case["kind"].as_str().unwrap_or("scenario") {
        "schedule" => {
            verif_hooks::arm_global_script(Box::new(move |_| unit_draw(0)));
            let b = build(&s);
            let prefix: Vec<usize> = case["choices"].as_array().unwrap().iter().map(|x| x.as_u64().unwrap() as usize).collect();
            let ctl = Arc::new(TokenController::new(&prefix));
            verif_hooks::arm_controller(ctl.clone());
            let res = plan(&s, &b);
            verif_hooks::disarm_controller();
            verif_hooks::disarm_global_script();
            let rec = ctl.record();
            match res {
                Err(m) => vec![format!("C12/panic: {m}")],
                Ok(Err(_)) => vec![],
                Ok(Ok(path)) => judge_path(&s, &b, &path, Some(gap_closing_in(&rec.events))).into_iter().map(|(k, d)| format!("{k}: {d}")).collect(),
            }
        }
        "schedule-set" => {
            verif_hooks::arm_global_script(Box::new(move |_| unit_draw(0)));
            let out = explore_schedules(&s, Some(2), 6000);
            verif_hooks::disarm_global_script();
            out.fails.into_iter().filter(|f| f.0.contains("depends-on-schedule")).map(|(k, d, _)| format!("{k}: {d}")).collect()
        }
        _ => {
            verif_hooks::arm_global_script(Box::new(move |_| unit_draw(0)));
            let r = eval_scenario(&s, true).0.into_iter().map(|(k, d)| format!("{k}: {d}")).collect();
            verif_hooks::disarm_global_script();
            r
        }
    }
}
