//! C05 — wrist singularity is detected geometrically and does not make J4/J6 jump.

use crate::c01::user_joints;
use crate::common::ev::*;
use crate::common::fkref;
use crate::common::m3::*;
use crate::common::par;
use crate::common::robots::*;
use crate::common::stack::*;
use rs_opw_kinematics::kinematic_traits::{Joints, CONSTRAINT_CENTERED};
use rs_opw_kinematics::parameters::opw_kinematics::Parameters;
use serde_json::{json, Value};
use std::f64::consts::PI;

const THR: f64 = 0.01 * PI / 180.0;

fn conv_tag(p: &Parameters) -> String {
    format!(
        "s5={}{}{}",
        p.sign_corrections[4],
        if p.offsets[4] != 0.0 { "/off5!=0" } else { "" },
        if p.sign_corrections[3] != p.sign_corrections[5] { "/s4!=s6" } else { "" }
    )
}

// ------------------------------------------------------------------ detection

pub fn eval_detect(stack: &StackDesc, q: &Joints) -> Result<Option<bool>, (String, String)> {
    let p = &stack.params;
    let fold = fkref::wrist_axis_angle(p, q);
    if (fold - THR).abs() < 0.05 * THR {
        return Ok(None); // on the band edge
    }
    let want = fold < THR;
    let k = stack.build();
    let got = k.kinematic_singularity(q).is_some();
    if got == want {
        return Ok(Some(got));
    }
    let th5 = fkref::internal_angles(p, q)[4];
    let region = if !want {
        "outside-band"
    } else if wrap_pi(th5).abs() < THR {
        if wrap_pi(th5) < 0.0 { "just-below-even-multiple-of-pi" } else { "at-or-just-above-even-multiple-of-pi" }
    } else {
        "near-odd-multiple-of-pi"
    };
    Err((
        format!("C05/detection/{}/{}/{}", if want { "missed" } else { "spurious" }, region, conv_tag(p)),
        format!(
            "joints {q:?}: axes 4 and 6 are {fold:e} rad from collinear (band {THR:e}); kinematic_singularity says {}",
            if got { "Some(A)" } else { "None" }
        ),
    ))
}

// ------------------------------------------------------------------ continuity

/// Sum over the three micro-shifts (0.125 um along x, y, z) of |dq1|+|dq2|+|dq3| for this arm posture.
fn arm_sensitivity(p: &Parameters, q: &Joints) -> f64 {
    // numeric 3x3 Jacobian of the wrist centre w.r.t. user joints 1..3 (central differences on FK_ref)
    let h = 1e-6;
    let mut jm = [[0.0; 3]; 3];
    for c in 0..3 {
        let mut a = *q;
        let mut b = *q;
        a[c] += h;
        b[c] -= h;
        let d = scale(sub(fkref::wrist_centre(p, &a), fkref::wrist_centre(p, &b)), 1.0 / (2.0 * h));
        for r in 0..3 {
            jm[r][c] = d[r];
        }
    }
    let dt = det(&jm);
    if dt.abs() < 1e-12 {
        return f64::INFINITY;
    }
    // inverse via adjugate
    let inv = |m: &M3| -> M3 {
        let c = |i: usize, j: usize| {
            let (a, b) = ((i + 1) % 3, (i + 2) % 3);
            let (cc, d) = ((j + 1) % 3, (j + 2) % 3);
            m[a][cc] * m[b][d] - m[a][d] * m[b][cc]
        };
        let mut r = [[0.0; 3]; 3];
        for i in 0..3 {
            for j in 0..3 {
                r[j][i] = c(i, j) / dt;
            }
        }
        r
    };
    let ji = inv(&jm);
    let shift = 1e-6 / 8.0;
    let mut worst: f64 = 0.0;
    for axis in 0..3 {
        let mut e = [0.0; 3];
        e[axis] = shift;
        let dq = mvec(&ji, e);
        worst = worst.max(dq[0].abs() + dq[1].abs() + dq[2].abs());
    }
    worst
}

/// Is some *other* arm branch of the same pose wrist-singular (within 10x the band)?
fn other_branch_singular(p: &Parameters, q: &Joints) -> bool {
    let pose = fkref::fk(p, q);
    let c = fkref::wrist_centre(p, q);
    let th = fkref::internal_angles(p, q);
    for arm in fkref::arm_ik(p, c) {
        let same = circ_dist(arm[0], th[0]) < 1e-6 && circ_dist(arm[1], th[1]) < 1e-6 && circ_dist(arm[2], th[2]) < 1e-6;
        if same {
            continue;
        }
        let r_arm = mmul(&mmul(&rotz(arm[0]), &roty(arm[1])), &roty(arm[2]));
        let rw = mmul(&transpose(&r_arm), &pose.r);
        let s = (rw[0][2] * rw[0][2] + rw[1][2] * rw[1][2]).sqrt(); // |sin t5| of that branch
        if s < 10.0 * THR {
            return true;
        }
    }
    false
}

pub struct ContCase {
    pub params: Parameters,
    pub q: Joints, // internal t5 == 0 exactly
    pub d4: f64,
    pub d6: f64,
    /// previous = CONSTRAINT_CENTERED on a robot whose constraint centres are the perturbed vector
    pub centred: bool,
    /// explicit previous on a robot with limits whose answers are ordered by the limit centres alone (weight 1); the
    /// centres differ from the previous vector in J4 and J6
    pub weighted: bool,
}

impl ContCase {
    fn json(&self) -> Value {
        json!({"kind": "continuity", "params": params_json(&self.params), "q": nums(&self.q), "d4": self.d4, "d6": self.d6, "centred": self.centred, "weighted": self.weighted})
    }
}

pub fn eval_cont(c: &ContCase) -> Result<(Vec<(String, String)>, String), &'static str> {
    let p = &c.params;
    if arm_sensitivity(p, &c.q) >= 0.4e-6 {
        return Err("arm sensitivity");
    }
    if other_branch_singular(p, &c.q) {
        return Err("other branch singular");
    }
    let mut fails = Vec::new();
    let pose = to_na(&fkref::fk(p, &c.q));
    let mut prev = c.q;
    prev[3] += c.d4;
    prev[5] += c.d6;
    if prev[3].abs() > 2.0 * PI || prev[5].abs() > 2.0 * PI {
        return Err("previous outside documented range");
    }
    // centred variant: the "previous" of the sentinel is the vector of constraint centres (= prev here);
    // limits are +-2.5 rad windows around it, so every answer within reach of the redistribution is admitted
    let stack = if c.centred {
        StackDesc::bare(*p).limited(Limits { from: prev.map(|x| x - 2.5), to: prev.map(|x| x + 2.5), weight: 1.0 })
    } else if c.weighted {
        let mut mid = prev;
        mid[3] += 0.4;
        mid[5] -= 0.15;
        StackDesc::bare(*p).limited(Limits { from: mid.map(|x| x - 2.5), to: mid.map(|x| x + 2.5), weight: 1.0 })
    } else {
        StackDesc::bare(*p)
    };
    let k = stack.build();
    let tag = format!("{}{}{}", conv_tag(p), if c.centred { "/centred" } else { "" }, if c.weighted { "/sorted-by-limit-centres" } else { "" });
    let given = if c.centred { CONSTRAINT_CENTERED } else { prev };
    let sols = match call(k.as_ref(), Entry::Continuing, &pose, &given, 0.0) {
        Ok(s) => s,
        Err(m) => return Ok((vec![(format!("C05/continuity/panic/{tag}"), m)], "panic".into())),
    };
    let (s4, s6) = (p.sign_corrections[3] as f64, p.sign_corrections[5] as f64);
    if c.d4 == 0.0 && c.d6 == 0.0 && !c.centred && !c.weighted {
        let ok = sols.first().map_or(false, |f| (0..6).all(|i| (f[i] - c.q[i]).abs() <= 2e-6));
        if !ok {
            fails.push((
                format!("C05/continuity/previous-not-first/{tag}"),
                format!("previous {:?} realises the singular pose; first answer is {:?}", c.q, sols.first()),
            ));
        }
    }
    // some singular answer must move J4 and J6 by the same amount (in the joints' own rotation sense)
    let singular: Vec<&Joints> = sols
        .iter()
        .filter(|s| wrap_pi(fkref::internal_angles(p, s)[4]).abs() < THR)
        .collect();
    let good = singular.iter().any(|s| {
        // either reading of "by the same amount": raw joint values, or each joint's own sense of rotation
        let m4 = s4 * (s[3] - prev[3]);
        let m6 = s6 * (s[5] - prev[5]);
        circ_dist(m4, m6) <= 1e-6 || circ_dist(s[3] - prev[3], s[5] - prev[5]) <= 1e-6
    });
    if !good {
        fails.push((
            format!("C05/continuity/j4-j6-not-moved-together/{tag}"),
            format!(
                "previous {prev:?}: none of the {} singular answers moves J4 and J6 by the same amount: {:?}",
                singular.len(),
                singular
            ),
        ));
    }
    Ok((fails, format!("continuity:n{}:sing{}", sols.len(), singular.len())))
}

fn detect_stacks(p: &Parameters) -> Vec<StackDesc> {
    let g = Iso::new(mmul(&rotx(0.4), &mmul(&roty(-0.9), &rotz(1.3))), [0.2, -0.1, 0.3]);
    vec![
        StackDesc::bare(*p),
        StackDesc::bare(*p).with(Wrap::Tool(g)),
        StackDesc::bare(*p).with(Wrap::Base(g)),
        StackDesc::bare(*p).with(Wrap::Frame(g)),
    ]
}

pub fn run(ctx: &Ctx) -> Report {
    let thorough = !ctx.quick();
    // --- detection
    let mut robots = Vec::new();
    for g in geometries(thorough).iter().take(if thorough { 81 } else { 3 }) {
        for s in sign_patterns(thorough) {
            for o in offset_sets() {
                robots.push(make(g.0, g.1, g.2, g.3, s, o, 6));
            }
            // a robot whose only offset is on J5
            robots.push(make(g.0, g.1, g.2, g.3, s, [0.0, 0.0, 0.0, 0.0, -PI / 2.0, 0.0], 6));
        }
    }
    let ds: Vec<f64> = vec![
        0.0, 0.5 * THR, -0.5 * THR, 0.9 * THR, -0.9 * THR, 1.1 * THR, -1.1 * THR, 2.0 * THR, -2.0 * THR, PI / 180.0, -PI / 180.0, 0.3, -1.4,
    ];
    let others: Vec<[f64; 5]> = vec![
        [0.0, 0.0, 0.0, 0.0, 0.0],
        [0.4, -0.9, 0.8, 1.1, 2.5],
        [-2.4, 1.3, -1.9, -3.0, -7.0],
    ];
    let sizes = [robots.len(), 7, ds.len(), others.len(), 4, 2];
    let n = par::product(&sizes);
    let mut rep = par::run(n, |idx, r| {
        let mut ix = [0usize; 6];
        par::decode(idx, &sizes, &mut ix);
        let p = &robots[ix[0]];
        let k = ix[1] as f64 - 3.0;
        let o = others[ix[3]];
        let th = [o[0], o[1], o[2], o[3], k * PI + ds[ix[2]], o[4]];
        let mut q = user_joints(p, &th);
        if ix[5] == 1 {
            // the same lattice on the *raw* J5 value (regular postures when J5 has an offset)
            q[4] = k * PI + ds[ix[2]];
        }
        let stack = detect_stacks(p).swap_remove(ix[4]);
        r.states += 1;
        r.transitions += 1;
        match eval_detect(&stack, &q) {
            Ok(None) => r.skipped_boundary += 1,
            Ok(Some(v)) => r.sig(format!("detect:{}:{}", if v { "singular" } else { "regular" }, stack.shape())),
            Err((key, d)) => r.fail(key, idx, json!({"kind":"detect","stack": stack.to_json(), "q": nums(&q)}), d),
        }
        if idx % 100_003 == 0 {
            r.sample(|| json!({"kind":"detect","stack": stack.to_json(), "q": nums(&q)}));
        }
    });

    // --- continuity
    let mut crobots = robot_axis(if thorough { 1 } else { 0 }, &[6]);
    // large arms: the 0.125 um shift perturbs their joints least, so most of their postures qualify
    for s in sign_patterns(thorough) {
        for o in offset_sets() {
            crobots.push(make(0.45, -0.4, 0.0, [1.8, 2.1, 2.2, 0.25], s, o, 6));
            crobots.push(make(0.3, 0.0, 0.2, [1.5, 2.5, 1.9, 0.3], s, o, 6));
        }
        // J5 offsets of exactly half a turn and beyond (the recomputed model J5 then sits a whole turn from its principal value)
        for o5 in [PI, -PI, 3.6, -4.1] {
            crobots.push(make(0.45, -0.4, 0.0, [1.8, 2.1, 2.2, 0.25], s, [0.0, 0.0, -PI / 2.0, 0.0, o5, 0.0], 6));
            crobots.push(make(0.3, 0.0, 0.2, [1.5, 2.5, 1.9, 0.3], s, [0.2, 0.0, 0.0, -0.4, o5, 1.0], 6));
        }
    }
    let ax: [Vec<f64>; 5] = if thorough {
        [vec![0.4, -2.4, 3.0], vec![-0.9, 0.5, 1.4], vec![-1.9, 0.8, 2.0], vec![0.0, 1.1, -2.0, 3.0], vec![0.0, 2.5, -1.2]]
    } else {
        [vec![0.4, -2.4], vec![-0.9, 0.5], vec![-1.9, 0.8], vec![0.0, 1.1, -2.0], vec![0.0, 2.5]]
    };
    let perturb: Vec<(f64, f64)> = vec![(0.0, 0.0), (0.3, -0.3), (-1.0, 1.0), (0.3, 0.0), (0.0, -1.0), (0.3, 0.3), (1.0, -0.3)];
    let csizes: Vec<usize> = std::iter::once(crobots.len()).chain(ax.iter().map(|a| a.len())).chain(std::iter::once(2 * perturb.len())).collect();
    let cn = par::product(&csizes);
    let crep = par::run(cn, |idx, r| {
        let mut ix = [0usize; 7];
        par::decode(idx, &csizes, &mut ix);
        let p = &crobots[ix[0]];
        let th = [ax[0][ix[1]], ax[1][ix[2]], ax[2][ix[3]], ax[3][ix[4]], 0.0, ax[4][ix[5]]];
        let q = user_joints(p, &th);
        let (d4, d6) = perturb[ix[6] % perturb.len()];
        let c = ContCase { params: *p, q, d4, d6, centred: ix[6] >= perturb.len(), weighted: false };
        match eval_cont(&c) {
            Err(_) => r.skipped_precondition += 1,
            Ok((fails, sig)) => {
                r.states += 1;
                r.transitions += 1;
                r.sig(sig);
                if idx % 50_021 == 0 {
                    r.sample(|| c.json());
                }
                for (k, d) in fails {
                    r.fail(k, n + idx, c.json(), d);
                }
            }
        }
    });
    let mut crep = crep;
    // axis-aligned arm postures (J1 on the base axes, links horizontal / vertical): there the three micro-shift directions
    // of the recovery are not interchangeable, a shift along one base axis can be tangential to the arm
    {
        let h = PI / 2.0;
        let aax: [Vec<f64>; 5] = [vec![0.0, h, -h, PI], vec![0.0, h, -h], vec![0.0, h, -h, PI], vec![0.0, 1.1, -2.0, 3.0, -0.4], vec![0.0, 2.5, -1.2, 0.7, -2.9]];
        let arobots: Vec<Parameters> = crobots.iter().step_by(if thorough { 2 } else { 5 }).cloned().chain(presets().into_iter().map(|(_, p)| p)).collect();
        let asizes: Vec<usize> = std::iter::once(arobots.len()).chain(aax.iter().map(|a| a.len())).chain(std::iter::once(5)).collect();
        let an = par::product(&asizes);
        let arep = par::run(an, |idx, r| {
            let mut ix = [0usize; 7];
            par::decode(idx, &asizes, &mut ix);
            let p = &arobots[ix[0]];
            let th = [aax[0][ix[1]], aax[1][ix[2]], aax[2][ix[3]], aax[3][ix[4]], 0.0, aax[4][ix[5]]];
            let q = user_joints(p, &th);
            let (d4, d6, centred, weighted) = [(0.0, 0.0, false, false), (0.3, -0.3, false, false), (0.0, 0.0, true, false), (0.0, 0.0, false, true), (0.3, -0.3, false, true)][ix[6]];
            let c = ContCase { params: *p, q, d4, d6, centred, weighted };
            match eval_cont(&c) {
                Err(_) => r.skipped_precondition += 1,
                Ok((fails, sig)) => {
                    r.states += 1;
                    r.transitions += 1;
                    r.sig(format!("aligned:{sig}"));
                    for (k, d) in fails {
                        r.fail(format!("{k}/axis-aligned"), n + cn + idx, c.json(), d);
                    }
                }
            }
        });
        rep.set("axis_aligned_points", json!({"qualifying": arep.states, "failing_a_precondition": arep.skipped_precondition, "robots": arobots.len()}));
        crep.merge(arep);
    }
    let cont_states = crep.states;
    let cont_skipped = crep.skipped_precondition;
    rep.merge(crep);
    if cont_states < 2000 {
        rep.machinery_errors.push(format!(
            "continuity lattice: only {cont_states} points qualify, {cont_skipped} fail a precondition"
        ));
    }
    rep.set("continuity_points_failing_a_precondition", json!(cont_skipped));
    rep.traces_validated = rep.transitions;
    rep.rule = "detection: robots (signs x offsets incl. J5 offset) x internal t5 = k*pi + d, k in -3..3, d in {0, +-0.5, +-0.9, +-1.1, +-2 thr, +-1 deg, ..} x \
                other joints x {bare, tool, base, frame}; oracle: angle between FK_ref axes 4 and 6 folded to [0,pi/2] < 0.01 deg <=> Some(A); band edge +-5% skipped. \
                continuity: robots R x lattice with internal t5 = 0 exactly x previous = solution with J4/J6 perturbed, given explicitly or as CONSTRAINT_CENTERED on a robot whose constraint centres are that vector; preconditions (arm sensitivity to the \
                0.125 um shifts < 0.4 urad, no other arm branch singular) computed by the oracle; expect previous first (2e-6) and a singular answer whose \
                J4 and J6 moved together; the same on axis-aligned arm postures (J1 in {0, +-90, 180 deg}, J2 in {0, +-90}, J3 in {0, +-90, 180}) x 5 x 5 J4/J6 values incl. the bundled robots".into();
    rep.set("axes", json!({"detection_robots": robots.len(), "k": 7, "d": ds.len(), "other_joint_vectors": others.len(), "stacks": 4, "j5_lattice_frames": ["model angle", "raw joint value"],
        "continuity_robots": crobots.len(), "continuity_perturbations": perturb.len()}));
    rep.set("continuity_points", json!(cont_states));
    rep.assumptions.push("'move by the same amount' is accepted in either reading: raw joint values, or each joint's own positive rotation sense (they coincide when J4 and J6 share a sign)".into());
    rep
}

pub fn replay(case: &Value) -> Vec<String> {
    if case["kind"] == "detect" {
        let stack = StackDesc::from_json(&case["stack"]);
        return match eval_detect(&stack, &as_arr6(&case["q"])) {
            Err((k, d)) => vec![format!("{k}: {d}")],
            _ => vec![],
        };
    }
    let c = ContCase {
        params: params_from_json(&case["params"]),
        q: as_arr6(&case["q"]),
        d4: as_num(&case["d4"]),
        d6: as_num(&case["d6"]),
        centred: case["centred"].as_bool().unwrap_or(false),
        weighted: case["weighted"].as_bool().unwrap_or(false),
    };
    match eval_cont(&c) {
        Ok((f, _)) => f.into_iter().map(|(k, d)| format!("{k}: {d}")).collect(),
        Err(_) => vec![],
    }
}
