//! C06 — 5-DOF inverse kinematics keeps the tool point and axis exact and J6 as requested.

use crate::c01::{user_joints, ANG_TOL, POS_TOL};
use crate::c02::expected_branches;
use crate::common::ev::*;
use crate::common::fkref;
use crate::common::m3::*;
use crate::common::par;
use crate::common::robots::*;
use crate::common::stack::*;
use rs_opw_kinematics::kinematic_traits::Joints;
use rs_opw_kinematics::parameters::opw_kinematics::Parameters;
use serde_json::{json, Value};
use std::f64::consts::PI;

const J6S: [f64; 6] = [0.0, 0.55, -3.0, PI, 7.5, 1e3];

pub struct Case {
    pub stack: StackDesc,
    pub q: Joints,
    pub entry: Entry,
    pub j6: f64,
    /// history variant: the previous vector (q) already holds the requested tool point, but the requested tool
    /// axis is tilted by this angle about the tool's x axis (0 = the request is FK(q) itself)
    pub tilt: f64,
    /// completeness is demanded when |sin J5| exceeds this (1e-3 on the product lattice; just outside the library's
    /// 0.01 degree band in the threshold sweep)
    pub regular_above: f64,
}

impl Case {
    fn json(&self) -> Value {
        json!({"stack": self.stack.to_json(), "q": nums(&self.q), "entry": self.entry.name(), "j6": num(self.j6), "tilt": self.tilt, "regular_above": self.regular_above})
    }
    fn from_json(v: &Value) -> Case {
        Case {
            stack: StackDesc::from_json(&v["stack"]),
            q: as_arr6(&v["q"]),
            entry: Entry::from_name(v["entry"].as_str().unwrap()),
            j6: as_num(&v["j6"]),
            tilt: v["tilt"].as_f64().unwrap_or(0.0),
            regular_above: v["regular_above"].as_f64().unwrap_or(1e-3),
        }
    }
}

/// Some(expected J6) for this entry point, or None if the entry point is a full 6-DOF solve here.
fn expected_j6(dof: i8, entry: Entry, j6: f64) -> Option<f64> {
    match (dof, entry) {
        (_, Entry::FiveDof) | (_, Entry::Continuing5) => Some(j6),
        (5, Entry::Inverse) => Some(0.0),
        (5, Entry::Continuing) => Some(j6),
        _ => None,
    }
}

pub fn eval(c: &Case) -> (Vec<(String, String)>, usize, bool) {
    let mut fails = Vec::new();
    let p = &c.stack.params;
    let Some(want_j6) = expected_j6(p.dof, c.entry, c.j6) else {
        return (fails, 0, false);
    };
    let k = c.stack.build();
    let mut want = c.stack.model_fk(&c.q);
    if c.tilt != 0.0 {
        want = Iso::new(mmul(&want.r, &rotx(c.tilt)), want.t);
    }
    let mut prev = c.q;
    prev[5] = c.j6;
    let tag = format!("{}/dof{}/{}{}{}", c.entry.name(), p.dof, c.stack.shape(), if c.stack.limits.is_some() { "+j6limits" } else { "" }, if c.tilt != 0.0 { "/reorient-in-place" } else { "" });
    let sols = match call(k.as_ref(), c.entry, &to_na(&want), &prev, c.j6) {
        Ok(s) => s,
        Err(m) => {
            fails.push((format!("C06/panic/{tag}"), format!("panicked: {m}")));
            return (fails, 0, true);
        }
    };
    for s in &sols {
        let j6_ok = if c.entry == Entry::Inverse { s[5] == want_j6 } else { s[5].to_bits() == want_j6.to_bits() };
        if !j6_ok {
            fails.push((
                format!("C06/j6-not-preserved/{tag}"),
                format!("answer carries J6 = {} instead of the caller's {}", s[5], want_j6),
            ));
            continue;
        }
        if !s.iter().all(|x| x.is_finite()) {
            fails.push((format!("C06/nonfinite/{tag}"), format!("answer {s:?} not finite")));
            continue;
        }
        let got = c.stack.model_fk(s);
        let dp = dist(got.t, want.t);
        let da = dir_angle(got.z_axis(), want.z_axis());
        if !(dp <= POS_TOL) {
            fails.push((format!("C06/tool-point/{tag}"), format!("answer {s:?} misses the tool point by {dp:e} m")));
        } else if !(da <= ANG_TOL) {
            fails.push((format!("C06/tool-axis/{tag}"), format!("answer {s:?} misses the tool axis by {da:e} rad")));
        }
    }
    // completeness clauses need a non-singular originating configuration
    let inner = c.stack.inner_joints(&c.q);
    let flange = fkref::fk(p, &inner);
    let th = fkref::internal_angles(p, &inner);
    // with joint limits on the innermost robot the originating configuration is owed only when the J6 the entry point
    // must hand back satisfies the J6 limit (all other joints of the limited stacks are unconstrained)
    let j6_allowed = match &c.stack.limits {
        None => true,
        Some(l) => crate::common::arc::arc_member(l.from[5], l.to[5], want_j6, 1e-9) == crate::common::arc::ArcVerdict::Inside,
    };
    let regular = j6_allowed && c.tilt == 0.0 && expected_branches(p, &flange).is_some() && th[4].sin().abs() > c.regular_above;
    if regular {
        let mut orig = c.q;
        orig[5] = want_j6;
        let present = sols.iter().any(|s| (0..5).all(|i| circ_dist(s[i], orig[i]) <= 1e-6));
        if sols.is_empty() {
            fails.push((
                format!("C06/empty/{tag}"),
                "no answer for a reachable, non-singular pose".to_string(),
            ));
        } else if !present {
            fails.push((
                format!("C06/originating-missing/{tag}"),
                format!("J1..J5 of the originating configuration absent from {} answers", sols.len()),
            ));
        }
    }
    (fails, sols.len(), true)
}

fn stacks(p: &Parameters) -> Vec<StackDesc> {
    let axial = Iso::new(rotz(0.8), [0.0, 0.0, 0.2]);
    let axial_shift = Iso::trans(0.0, 0.0, 0.35);
    let base = Iso::new(mmul(&rotx(0.4), &mmul(&roty(-0.9), &rotz(1.3))), [0.2, -0.1, 0.3]);
    vec![
        StackDesc::bare(*p),
        StackDesc::bare(*p).with(Wrap::Tool(axial)),
        StackDesc::bare(*p).with(Wrap::Tool(axial_shift)),
        StackDesc::bare(*p).with(Wrap::Base(base)),
        StackDesc::bare(*p).with(Wrap::Base(base)).with(Wrap::Tool(axial)),
        StackDesc::bare(*p).with(Wrap::Tool(axial)).with(Wrap::Base(base)),
        // joint limits on J6 only, off centre (the range contains 0, its mid-point is 30 degrees); J1..J5 unconstrained
        StackDesc::bare(*p).limited(j6_limits()),
        StackDesc::bare(*p).limited(j6_limits()).with(Wrap::Base(base)).with(Wrap::Tool(axial)),
        // J6 allowed almost two turns (-350..350 degrees, centre 0), answers ordered by the limit centres alone (weight 1):
        // the caller's J6 is kept bit for bit even when it lies more than half a turn from that centre
        StackDesc::bare(*p).limited(Limits { from: [0.0, 0.0, 0.0, 0.0, 0.0, (-350.0f64).to_radians()], to: [0.0, 0.0, 0.0, 0.0, 0.0, 350.0f64.to_radians()], weight: 1.0 }),
    ]
}

fn j6_limits() -> Limits {
    Limits { from: [0.0, 0.0, 0.0, 0.0, 0.0, (-40.0f64).to_radians()], to: [0.0, 0.0, 0.0, 0.0, 0.0, 100.0f64.to_radians()], weight: 0.4 }
}

fn theta_axes(thorough: bool) -> [Vec<f64>; 6] {
    if !thorough {
        [vec![0.0, 0.7, -2.4], vec![-0.9, 0.2, 1.3], vec![-1.9, 0.8, 0.1], vec![0.0, 1.1, -3.0], vec![0.6, -1.2, 2.2, 0.0], vec![0.0, 2.5]]
    } else {
        [
            vec![0.0, 0.7, -2.4, 3.0, 1.9],
            vec![-0.9, 0.2, 1.3, 2.5, -2.2],
            vec![-1.9, 0.8, 0.1, 2.6, -0.7],
            vec![0.0, 1.1, -3.0, 2.0, -1.3],
            vec![0.6, -1.2, 2.2, 0.0, -0.05, PI],
            vec![0.0, 2.5, -1.0],
        ]
    }
}

pub fn run(ctx: &Ctx) -> Report {
    let thorough = !ctx.quick();
    let mut robots: Vec<Parameters> = if thorough { robot_axis(1, &[5, 6]).into_iter().step_by(14).collect() } else { robot_axis(0, &[5, 6]) };
    // a 5-DOF robot as the YAML loader produces it: J6 sign 0
    let mut blocked = robots[1];
    blocked.dof = 5;
    blocked.sign_corrections[5] = 0;
    robots.push(blocked);
    // 5-DOF robots declared through a URDF description object (public dof field) and converted with parameters():
    // the declaration must survive the conversion, and the solver built from it must behave as 5-DOF
    let mut declared_lost: Vec<String> = Vec::new();
    for src in [robots[0], robots[robots.len() / 2]] {
        for j6_sign in [src.sign_corrections[5], 0] {
            let mut signs = src.sign_corrections;
            signs[5] = j6_sign;
            let u = rs_opw_kinematics::urdf::URDFParameters {
                a1: src.a1, a2: src.a2, b: src.b, c1: src.c1, c2: src.c2, c3: src.c3, c4: src.c4,
                sign_corrections: signs, from: [0.0; 6], to: [0.0; 6], dof: 5,
            };
            let p = u.parameters(&src.offsets);
            if p.dof != 5 {
                declared_lost.push(format!("URDFParameters {{ dof: 5, .. }}.parameters() returns dof {}", p.dof));
            }
            let mut forced = p;
            forced.dof = 5; // judged as the 5-DOF robot it was declared to be
            robots.push(forced);
        }
    }
    let ax = theta_axes(thorough);
    let nst = 9usize;
    let sizes: Vec<usize> = [robots.len(), nst].into_iter().chain(ax.iter().map(|a| a.len())).collect();
    let n = par::product(&sizes);
    let mut rep = par::run(n, |idx, r| {
        let mut ix = [0usize; 8];
        par::decode(idx, &sizes, &mut ix);
        let p = &robots[ix[0]];
        let stack = stacks(p).swap_remove(ix[1]);
        let th = [ax[0][ix[2]], ax[1][ix[3]], ax[2][ix[4]], ax[3][ix[5]], ax[4][ix[6]], ax[5][ix[7]]];
        let q = user_joints(p, &th);
        r.states += 1;
        for entry in ENTRIES {
            for (ji, j6) in J6S.iter().enumerate() {
                // plain inverse takes no J6: run it once
                if entry == Entry::Inverse && ji > 0 {
                    continue;
                }
                // rotate through the J6 alphabet instead of the full product in the quick tier
                if !thorough && entry != Entry::Inverse && (ji + idx as usize) % 3 != 0 {
                    continue;
                }
                for tilt in [0.0, 0.35, -2.0] {
                    // the tilted requests matter where a previous vector is consulted
                    if tilt != 0.0 && !(entry.uses_prev() && (thorough || (ji + idx as usize) % 2 == 0)) {
                        continue;
                    }
                    let c = Case { stack: stack.clone(), q, entry, j6: *j6, tilt, regular_above: 1e-3 };
                    let (fails, nsol, ran) = eval(&c);
                    if !ran {
                        continue;
                    }
                    r.transitions += 1;
                    r.sig(format!("{}:dof{}:{}{}:{}:{}", entry.name(), p.dof, stack.shape(), if stack.limits.is_some() { "+j6limits" } else { "" }, nsol, if tilt != 0.0 { "tilted" } else { "fk" }));
                    if (idx + ji as u64) % 300_007 == 0 {
                        r.sample(|| c.json());
                    }
                    for (k, d) in fails {
                        r.fail(k, idx, c.json(), d);
                    }
                }
            }
        }
    });
    // --- threshold sweep: J5 approaching 0 and pi along a magnitude ladder; the originating configuration is demanded
    // as soon as J5 is 5% outside the library's singularity band
    let lad = crate::common::ladder::ladder(&["kinematics_impl.rs"]);
    let srobots = sweep_robots();
    let others: [[f64; 5]; 3] = [[0.3, 0.4, -0.2, 0.7, 1.1], [-2.4, -0.9, 0.8, -1.3, -2.5], [1.2, 0.5, -1.9, 3.0, 0.0]];
    let ssizes = [srobots.len(), lad.len(), 4, others.len(), 3];
    let sn = par::product(&ssizes);
    let thr = 0.01f64.to_radians();
    let srep = par::run(sn, |idx, r| {
        let mut ix = [0usize; 5];
        par::decode(idx, &ssizes, &mut ix);
        let p = &srobots[ix[0]];
        let d = lad[ix[1]] * if ix[2] % 2 == 0 { 1.0 } else { -1.0 };
        let t5 = if ix[2] / 2 == 0 { d } else { PI + d };
        let o = others[ix[3]];
        let q = user_joints(p, &[o[0], o[1], o[2], o[3], t5, o[4]]);
        let stack = stacks(p).swap_remove([0usize, 1, 3][ix[4]]);
        r.states += 1;
        for entry in ENTRIES {
            let c = Case { stack: stack.clone(), q, entry, j6: 0.55, tilt: 0.0, regular_above: (1.05 * thr).sin() };
            let (fails, nsol, ran) = eval(&c);
            if !ran {
                continue;
            }
            r.transitions += 1;
            r.sig(format!("j5-ladder:{}:dof{}:{}:{}", entry.name(), p.dof, stack.shape(), nsol.min(1)));
            for (k, dd) in fails {
                r.fail(format!("{k}/j5-ladder"), n + idx, c.json(), dd);
            }
        }
    });
    rep.merge(srep);
    rep.set("threshold_sweep", json!({"ladder_values": lad.len(), "points": sn, "complete_outside": "1.05 x the 0.01 degree band"}));
    for (i, d) in declared_lost.iter().enumerate() {
        rep.fail("C06/declared-dof-lost/urdf-parameters".to_string(), n + 9_000_000 + i as u64, json!({"kind": "urdf-declared-dof"}), d.clone());
    }
    rep.traces_validated = rep.transitions;
    rep.rule = "robots R (dof 5 and 6, one with J6 sign 0, four declared 5-DOF through a URDF description object and parameters()) x stacks {bare, axial tool, z-shift tool, base, base>tool, tool>base, bare and base>tool with off-centre J6 limits -40..100 deg, bare with J6 limits -350..350 deg sorted by the limit centres} x theta lattice x \
                J6 alphabet {0,0.55,-3,pi,7.5,1e3} x entry points; oracle: tool point/axis through the stack's reference FK, J6 bit-equal to the \
                caller's, originating J1..J5 present and answer list non-empty when the configuration is regular; history variant for the \
                continuing entry points: previous = q already at the requested tool point, requested axis tilted by {0.35, -2.0} rad (soundness clauses only); \
                threshold sweep: J5 = {0, pi} +- every ladder magnitude on 5 sweep robots x 3 postures x {bare, axial tool, base}; \
                signature = (entry, dof, stack shape, number of answers)".into();
    rep.set("axes", json!({"robots": robots.len(), "stacks": nst, "theta_axis_sizes": ax.iter().map(|a| a.len()).collect::<Vec<_>>(), "j6": J6S.to_vec()}));
    rep.assumptions.push("lattice-relative: values outside the printed axes are not covered".into());
    rep
}

pub fn replay(case: &Value) -> Vec<String> {
    if case["kind"] == "urdf-declared-dof" {
        let u = rs_opw_kinematics::urdf::URDFParameters { a1: 0.1, a2: 0.0, b: 0.0, c1: 0.5, c2: 0.6, c3: 0.5, c4: 0.1, sign_corrections: [1; 6], from: [0.0; 6], to: [0.0; 6], dof: 5 };
        let p = u.parameters(&[0.0; 6]);
        return if p.dof != 5 { vec![format!("C06/declared-dof-lost/urdf-parameters: parameters() returns dof {}", p.dof)] } else { vec![] };
    }
    let c = Case::from_json(case);
    eval(&c).0.into_iter().map(|(k, d)| format!("{k}: {d}")).collect()
}
