//! C16 — parallelogram coupling is applied consistently in forward and inverse kinematics.

use crate::c01::{user_joints, ANG_TOL, POS_TOL};
use crate::common::ev::*;
use crate::common::fkref;
use crate::common::m3::*;
use crate::common::par;
use crate::common::robots::*;
use crate::common::stack::*;
use rs_opw_kinematics::kinematic_traits::{Joints, Kinematics};
use rs_opw_kinematics::kinematics_impl::OPWKinematics;
use rs_opw_kinematics::parameters::opw_kinematics::Parameters;
use serde_json::{json, Value};

pub struct Case {
    pub stack: StackDesc,
    pub q: Joints,
}
impl Case {
    fn json(&self) -> Value {
        json!({"stack": self.stack.to_json(), "q": nums(&self.q)})
    }
}

/// Equal up to rounding of the substitution itself (an implementation may form `q[c] - s*q[d]` in another order).
fn bits_eq(a: &nalgebra::Isometry3<f64>, b: &nalgebra::Isometry3<f64>) -> bool {
    let (dp, da) = pose_dist(&from_na(a), &from_na(b));
    dp <= 1e-12 && da <= 1e-12
}

pub fn eval(c: &Case) -> (Vec<(String, String)>, String) {
    let mut fails = Vec::new();
    let st = &c.stack;
    let p = &st.params;
    let shape = st.shape();
    let k = st.build();
    let q = &c.q;
    let pure_para = st.wraps.iter().all(|w| matches!(w, Wrap::Para { .. }));
    let tag = match st.wraps.iter().find_map(|w| if let Wrap::Para { driven, coupled, .. } = w { Some((*driven, *coupled)) } else { None }) {
        Some((d, cc)) => format!("{shape}/driven{}-coupled{}", d + 1, cc + 1),
        None => shape.clone(),
    };
    // forward == inner forward at the substituted joint vector (bit-equal when the stack is couplings only)
    let inner_q = st.inner_joints(q);
    let got = k.forward(q);
    if pure_para {
        let inner = OPWKinematics::new(*p);
        if !bits_eq(&got, &inner.forward(&inner_q)) {
            fails.push((format!("C16/forward-substitution/{tag}"), format!("forward({q:?}) is not the inner robot's forward({inner_q:?})")));
        }
        let a = k.forward_with_joint_poses(q);
        let b = inner.forward_with_joint_poses(&inner_q);
        if !(0..6).all(|i| bits_eq(&a[i], &b[i])) {
            fails.push((format!("C16/link-substitution/{tag}"), "link poses are not the inner robot's at the substituted joint vector".into()));
        }
    }
    let want = st.model_fk(q);
    let (dp, da) = pose_dist(&from_na(&got), &want);
    if !(dp <= 1e-9 && da <= 1e-9) {
        fails.push((format!("C16/forward-model/{tag}"), format!("forward differs from the reference by {dp:e} m, {da:e} rad")));
    }
    let links = k.forward_with_joint_poses(q);
    let wl = st.model_links(q);
    for i in 0..6 {
        let (dp, da) = pose_dist(&from_na(&links[i]), &wl[i]);
        if !(dp <= 1e-9 && da <= 1e-9) {
            fails.push((format!("C16/link-model/{tag}"), format!("link {} differs from the reference by {dp:e} m, {da:e} rad", i + 1)));
            break;
        }
    }
    // inverse entry points map back onto the request
    let pose = to_na(&want);
    let th = fkref::internal_angles(p, &inner_q);
    // non-emptiness is demanded only away from wrist, elbow, shoulder singularities and the reach boundary (oracle margins of C02)
    let regular = th[4].sin().abs() > 1e-3 && crate::c02::expected_branches(p, &fkref::fk(p, &inner_q)).is_some();
    let axial_ok = st.wraps.iter().all(|w| match w {
        Wrap::Tool(t) | Wrap::Frame(t) => t.t[0] == 0.0 && t.t[1] == 0.0 && (t.r[2][2] - 1.0).abs() < 1e-15,
        _ => true,
    });
    let mut nsol = 0;
    for entry in ENTRIES {
        let five = p.dof == 5 || matches!(entry, Entry::FiveDof | Entry::Continuing5);
        if five && !axial_ok {
            continue;
        }
        for prev in [*q, rs_opw_kinematics::kinematic_traits::CONSTRAINT_CENTERED, [q[0] + 0.4, q[1] - 5.5, q[2] + 5.0, q[3], q[4], q[5] - 6.0]] {
        if !entry.uses_prev() && prev[0].to_bits() != q[0].to_bits() {
            continue;
        }
        let sols = match call(k.as_ref(), entry, &pose, &prev, q[5]) {
            Ok(s) => s,
            Err(m) => {
                fails.push((format!("C16/panic/{}/{tag}", entry.name()), m));
                continue;
            }
        };
        nsol += sols.len();
        if regular && sols.is_empty() {
            fails.push((format!("C16/empty/{}/{tag}", entry.name()), "no answer for the pose produced by forward".into()));
        }
        for s in &sols {
            let back = st.model_fk(s);
            let (dp, da) = pose_dist(&back, &want);
            let axis = dir_angle(back.z_axis(), want.z_axis());
            if !(dp <= POS_TOL) || (!five && !(da <= ANG_TOL)) || (five && !(axis <= ANG_TOL)) {
                fails.push((
                    format!("C16/round-trip/{}/{tag}", entry.name()),
                    format!("answer {s:?} maps {dp:e} m / {da:e} rad away from the request (previous {prev:?})"),
                ));
                break;
            }
        }
        }
    }
    (fails, format!("{shape}:n{}", nsol.min(40)))
}

pub fn run(ctx: &Ctx) -> Report {
    let thorough = !ctx.quick();
    let scalings = [-2.0, -1.0, -0.5, 0.0, 0.5, 1.0, 2.0];
    let g = Iso::new(mmul(&rotx(0.4), &mmul(&roty(-0.9), &rotz(1.3))), [0.2, -0.1, 0.3]);
    let axial = Iso::new(rotz(0.8), [0.0, 0.0, 0.2]);
    let mut pairs = Vec::new();
    for d in 0..6 {
        for c in 0..6 {
            if d != c {
                pairs.push((d, c));
            }
        }
    }
    let second: [(usize, usize); 6] = [(1, 2), (2, 1), (0, 3), (4, 5), (3, 1), (5, 0)];
    // stack variants: 0 = P, 1..6 = P then second P (outer), 7 = tool inside P, 8 = P inside base, 9 = generic tool outside P
    let n_var = 10usize;
    let all_r = robot_axis(0, &[6, 5]);
    let robots: Vec<Parameters> = if thorough {
        all_r.iter().step_by(2).cloned().collect()
    } else {
        vec![all_r[1], all_r[9], all_r[16], all_r[27], all_r[all_r.len() / 2 + 3], all_r[all_r.len() - 2]]
    };
    let thetas: Vec<[f64; 6]> = if thorough {
        vec![[0.4, -0.9, -1.9, 0.3, 0.6, 0.2], [-2.4, 0.5, 0.8, -1.3, -1.2, 2.5], [3.0, 1.3, 2.6, 2.9, 2.2, -3.0]]
    } else {
        vec![[0.4, -0.9, -1.9, 0.3, 0.6, 0.2], [-2.4, 0.5, 0.8, -1.3, -1.2, 2.5]]
    };
    let sizes = [pairs.len(), scalings.len(), n_var, robots.len(), thetas.len()];
    let n = par::product(&sizes);
    let mut rep = par::run(n, |idx, r| {
        let mut ix = [0usize; 5];
        par::decode(idx, &sizes, &mut ix);
        let (d, c) = pairs[ix[0]];
        let s = scalings[ix[1]];
        let p = &robots[ix[3]];
        let q = user_joints(p, &thetas[ix[4]]);
        let para = Wrap::Para { driven: d, coupled: c, scaling: s };
        let desc = match ix[2] {
            0 => StackDesc::bare(*p).with(para),
            v @ 1..=6 => {
                let (d2, c2) = second[v - 1];
                StackDesc::bare(*p).with(para).with(Wrap::Para { driven: d2, coupled: c2, scaling: 0.5 })
            }
            7 => StackDesc::bare(*p).with(Wrap::Tool(axial)).with(para),
            8 => StackDesc::bare(*p).with(para).with(Wrap::Base(g)),
            _ => StackDesc::bare(*p).with(para).with(Wrap::Tool(g)),
        };
        // every other case: limits that accept every angle (span > 2 pi) but whose centres lie beyond pi,
        // so that CONSTRAINT_CENTERED makes the inner robot return angles outside [-pi, pi]
        let desc = if idx % 2 == 1 { desc.limited(crate::common::stack::Limits { from: [0.5; 6], to: [7.5; 6], weight: 0.0 }) } else { desc };
        let case = Case { stack: desc, q };
        let (fails, sig) = eval(&case);
        r.states += 1;
        r.transitions += 6;
        r.sig(sig);
        if idx % 30_011 == 0 {
            r.sample(|| case.json());
        }
        for (k, dd) in fails {
            r.fail(k, idx, case.json(), dd);
        }
    });
    // --- threshold sweep: scalings a ladder magnitude away from 0, +-1 and +-2, and joint vectors a ladder magnitude
    // away from zero on the driven / coupled joints
    let lad = crate::common::ladder::ladder(&["parallelogram.rs"]);
    let lad: Vec<f64> = if thorough { lad } else { lad.into_iter().step_by(2).collect() };
    let centres = [0.0, 1.0, -1.0, 2.0, -2.0];
    let spairs: [(usize, usize); 6] = [(1, 2), (2, 1), (0, 5), (5, 3), (4, 1), (3, 4)];
    let ssizes = [lad.len(), centres.len(), 2, spairs.len(), 3, 2];
    let sn = par::product(&ssizes);
    let srep = par::run(sn, |idx, r| {
        let mut ix = [0usize; 6];
        par::decode(idx, &ssizes, &mut ix);
        let dlt = lad[ix[0]] * if ix[2] == 0 { 1.0 } else { -1.0 };
        let (d, c) = spairs[ix[3]];
        let p = &robots[ix[5] * (robots.len() - 1)];
        let mut q = user_joints(p, &thetas[0]);
        let s = match ix[4] {
            0 => centres[ix[1]] + dlt,
            _ => [0.5, 1.0, -2.0, 0.0, -0.5][ix[1]],
        };
        // variants 1 / 2: the ladder sits on the driven / the coupled joint value instead of on the scaling
        if ix[4] == 1 {
            q[d] = dlt;
        } else if ix[4] == 2 {
            q[c] = dlt;
        }
        let para = Wrap::Para { driven: d, coupled: c, scaling: s };
        let desc = if idx % 2 == 0 { StackDesc::bare(*p).with(para) } else { StackDesc::bare(*p).with(Wrap::Tool(axial)).with(para).with(Wrap::Base(g)) };
        let case = Case { stack: desc, q };
        let (fails, sig) = eval(&case);
        r.states += 1;
        r.transitions += 6;
        r.sig(format!("ladder:{sig}"));
        for (k, dd) in fails {
            r.fail(format!("{k}/ladder"), n + idx, case.json(), dd);
        }
    });
    rep.merge(srep);
    rep.set("threshold_sweep", json!({"ladder_values": lad.len(), "scaling_centres": centres.to_vec(), "pairs": spairs.len(), "on": ["scaling", "driven joint value", "coupled joint value"]}));
    rep.traces_validated = rep.transitions;
    rep.rule = "all 30 ordered (driven != coupled) pairs x scalings {-2,-1,-.5,0,.5,1,2} x stack variants {P, P under a second P (6 pairs), tool under P, \
                P under base, P under a generic tool} x robots (dof 5/6) x joint vectors; oracle: forward and link poses equal (1e-12) to the inner robot at the \
                substituted joint vector, equal to the composed reference, every answer of the four inverse entry points maps back onto the request; \
                threshold sweep: scaling = {0, +-1, +-2} +- each ladder magnitude, and driven / coupled joint value = +- each ladder magnitude; signature = (stack shape, answers)".into();
    rep.set("axes", json!({"pairs": pairs.len(), "scalings": scalings.len(), "stack_variants": n_var, "robots": robots.len(), "joint_vectors": thetas.len()}));
    rep
}

pub fn replay(case: &Value) -> Vec<String> {
    let c = Case { stack: StackDesc::from_json(&case["stack"]), q: as_arr6(&case["q"]) };
    eval(&c).0.into_iter().map(|(k, d)| format!("{k}: {d}")).collect()
}
