//! opwmc: bounded-exhaustive checks of the rs-opw-kinematics properties C01..C20.
//! usage: opwmc <Cnn> quick|thorough        opwmc <Cnn> --replay <file>

mod common;
mod c01;
mod c02;
mod c03;
mod c04;
mod c05;
mod c06;
mod c07;
mod c08;
mod c09;
mod c10;
mod c11;
mod c12;
mod c13;
mod c14;
mod c15;
mod c16;
mod c17;
mod c18;
mod c19;
mod c20;

use common::ev::{Ctx, Report, Tier};
use std::time::Instant;

static LAST_PANIC: std::sync::Mutex<Option<String>> = std::sync::Mutex::new(None);

type RunFn = fn(&Ctx) -> Report;
type ReplayFn = fn(&serde_json::Value) -> Vec<String>;

fn table() -> Vec<(&'static str, RunFn, ReplayFn)> {
    vec![
        ("C01", c01::run as RunFn, c01::replay as ReplayFn),
        ("C02", c02::run as RunFn, c02::replay as ReplayFn),
        ("C03", c03::run as RunFn, c03::replay as ReplayFn),
        ("C04", c04::run as RunFn, c04::replay as ReplayFn),
        ("C05", c05::run as RunFn, c05::replay as ReplayFn),
        ("C06", c06::run as RunFn, c06::replay as ReplayFn),
        ("C07", c07::run as RunFn, c07::replay as ReplayFn),
        ("C08", c08::run as RunFn, c08::replay as ReplayFn),
        ("C09", c09::run as RunFn, c09::replay as ReplayFn),
        ("C10", c10::run as RunFn, c10::replay as ReplayFn),
        ("C11", c11::run as RunFn, c11::replay as ReplayFn),
        ("C12", c12::run as RunFn, c12::replay as ReplayFn),
        ("C13", c13::run as RunFn, c13::replay as ReplayFn),
        ("C14", c14::run as RunFn, c14::replay as ReplayFn),
        ("C15", c15::run as RunFn, c15::replay as ReplayFn),
        ("C16", c16::run as RunFn, c16::replay as ReplayFn),
        ("C17", c17::run as RunFn, c17::replay as ReplayFn),
        ("C18", c18::run as RunFn, c18::replay as ReplayFn),
        ("C19", c19::run as RunFn, c19::replay as ReplayFn),
        ("C20", c20::run as RunFn, c20::replay as ReplayFn),
    ]
}

fn main() {
    let args: Vec<String> = std::env::args().collect();
    if args.len() < 3 {
        eprintln!("usage: opwmc <Cnn> quick|thorough | opwmc <Cnn> --replay <file>");
        std::process::exit(2);
    }
    let prop = args[1].as_str();
    let entry = table().into_iter().find(|e| e.0 == prop);
    let Some((_, run, replay)) = entry else {
        eprintln!("unknown property {prop}");
        std::process::exit(2);
    };
    // Panics of the code under test are caught and judged by the checks; keep them off stderr,
    // but remember the last one for machinery-failure reports.
    std::panic::set_hook(Box::new(|info| {
        *LAST_PANIC.lock().unwrap() = Some(info.to_string());
    }));
    if args[2] == "--replay" {
        let path = &args[3];
        let doc: serde_json::Value =
            serde_json::from_str(&std::fs::read_to_string(path).expect("read replay file")).expect("replay json");
        let case = &doc["case"];
        let a = replay(case);
        let b = replay(case);
        if a != b {
            eprintln!("MACHINERY-ERROR replay is not deterministic:\n first: {a:?}\n second: {b:?}");
            std::process::exit(2);
        }
        if a.is_empty() {
            println!("replay: property {prop} holds on this case");
            std::process::exit(0);
        }
        for l in &a {
            println!("replay: {l}");
        }
        println!("VIOLATION property={prop} replay={path}");
        std::process::exit(1);
    }
    let tier = match args[2].as_str() {
        "quick" => Tier::Quick,
        "thorough" => Tier::Thorough,
        other => {
            eprintln!("unknown tier {other}");
            std::process::exit(2);
        }
    };
    let seed = std::env::var("VERIF_SEED").ok().and_then(|s| s.parse().ok()).unwrap_or(0u64);
    let ctx = Ctx { tier, seed };
    let started = Instant::now();
    // The library prints progress lines with println!; keep stdout for the verdict lines only.
    let saved_stdout = silence_stdout();
    let result = std::panic::catch_unwind(|| run(&ctx));
    restore_stdout(saved_stdout);
    let rep = match result {
        Ok(r) => r,
        Err(_) => {
            eprintln!("MACHINERY-ERROR property={prop} checker panicked: {:?}", LAST_PANIC.lock().unwrap());
            std::process::exit(2);
        }
    };
    let code = common::ev::finish(prop, &ctx, rep, started);
    std::process::exit(code);
}

fn silence_stdout() -> i32 {
    use std::io::Write;
    if std::env::var("VERIF_KEEP_STDOUT").is_ok() {
        return -1;
    }
    let _ = std::io::stdout().flush();
    unsafe {
        let saved = libc::dup(1);
        let devnull = libc::open(b"/dev/null\0".as_ptr() as *const libc::c_char, libc::O_WRONLY);
        if saved >= 0 && devnull >= 0 {
            libc::dup2(devnull, 1);
            libc::close(devnull);
        }
        saved
    }
}

fn restore_stdout(saved: i32) {
    use std::io::Write;
    if saved < 0 {
        return;
    }
    let _ = std::io::stdout().flush();
    unsafe {
        libc::dup2(saved, 1);
        libc::close(saved);
    }
}
