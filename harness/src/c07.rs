//! C07 — joint limits mean arc membership modulo 2*pi.

use crate::common::arc::*;
use crate::common::ev::*;
use crate::common::par;
use rs_opw_kinematics::constraints::Constraints;
use serde_json::{json, Value};

#[derive(Clone, Copy, Debug, PartialEq)]
pub enum Ctor {
    Radians,
    Degrees,
    UpdateRange,
}
impl Ctor {
    fn name(&self) -> &'static str {
        match self {
            Ctor::Radians => "new",
            Ctor::Degrees => "from_degrees",
            Ctor::UpdateRange => "update_range",
        }
    }
    fn from_name(s: &str) -> Ctor {
        match s {
            "new" => Ctor::Radians,
            "from_degrees" => Ctor::Degrees,
            "update_range" => Ctor::UpdateRange,
            _ => panic!("ctor {s}"),
        }
    }
}

#[derive(Clone, Copy, Debug, PartialEq)]
pub enum Others {
    Wide,
    Equal,
}

pub fn build(ctor: Ctor, joint: usize, from_deg: f64, to_deg: f64, others: Others) -> Constraints {
    let (of, ot) = match others {
        Others::Wide => (-230.0, 230.0),
        Others::Equal => (0.0, 0.0),
    };
    let mut f = [of; 6];
    let mut t = [ot; 6];
    f[joint] = from_deg;
    t[joint] = to_deg;
    match ctor {
        Ctor::Radians => Constraints::new(f.map(f64::to_radians), t.map(f64::to_radians), 0.25),
        Ctor::Degrees => Constraints::from_degrees(
            [f[0]..=t[0], f[1]..=t[1], f[2]..=t[2], f[3]..=t[3], f[4]..=t[4], f[5]..=t[5]],
            0.25,
        ),
        Ctor::UpdateRange => {
            let mut c = Constraints::new([0.3; 6], [0.9; 6], 0.25);
            c.update_range(f.map(f64::to_radians), t.map(f64::to_radians));
            c
        }
    }
}

fn class(from: f64, to: f64) -> &'static str {
    if from == to {
        "from==to"
    } else if from < to {
        if to - from >= 360.0 {
            "span>=turn"
        } else {
            "non-wrapping"
        }
    } else {
        "wrapping"
    }
}

/// One membership decision. `shift` (radians) moves the angle off the lattice (irrational sub-lattice).
/// Returns Ok(None) if skipped as boundary/ambiguous, Ok(Some(verdict agreed)), or Err(key, detail).
pub fn decide(
    ctor: Ctor,
    joint: usize,
    from_deg: f64,
    to_deg: f64,
    angle_deg: f64,
    shift: f64,
    others: Others,
) -> Result<Option<bool>, (String, String)> {
    let c = build(ctor, joint, from_deg, to_deg, others);
    let mut q = [0.1; 6];
    q[joint] = angle_deg.to_radians() + shift;
    let got = c.compliant(&q);
    let want = arc_member(from_deg.to_radians(), to_deg.to_radians(), q[joint], 1e-9);
    // exactly decidable boundary family: from = 0 < to < 360, angle on either end, no shift
    let exact_boundary =
        shift == 0.0 && from_deg == 0.0 && to_deg > 0.0 && to_deg < 360.0 && (angle_deg == 0.0 || angle_deg == to_deg);
    let want = match want {
        ArcVerdict::Inside => true,
        ArcVerdict::Outside => false,
        ArcVerdict::Boundary => {
            if exact_boundary {
                true
            } else {
                return Ok(None);
            }
        }
    };
    if got == want {
        return Ok(Some(got));
    }
    let cls = class(from_deg, to_deg);
    let oth = if others == Others::Equal { "/others-from==to" } else { "" };
    let key = if want {
        format!("C07/rejects-inside/{cls}/{}{oth}", ctor.name())
    } else {
        format!("C07/accepts-outside/{cls}/{}{oth}", ctor.name())
    };
    Err((
        key,
        format!(
            "joint {} limits [{from_deg}, {to_deg}] deg, angle {angle_deg} deg (+{shift} rad): compliant = {got}, arc membership = {want}",
            joint + 1
        ),
    ))
}

fn case_json(ctor: Ctor, joint: usize, f: f64, t: f64, a: f64, shift: f64, others: Others) -> Value {
    json!({"kind":"decision","ctor": ctor.name(), "joint": joint, "from_deg": f, "to_deg": t, "angle_deg": a, "shift_rad": shift,
           "others": if others == Others::Equal {"equal"} else {"wide"}})
}

/// Derived clauses for one constraint set.
fn derived(ctor: Ctor, joint: usize, f: f64, t: f64, others: Others) -> Vec<(String, String)> {
    let mut fails = Vec::new();
    let c = build(ctor, joint, f, t, others);
    // zero-length-or-full-turn reversed ranges are ambiguous: no demand
    let ambiguous = f > t && (f - t) % 360.0 == 0.0;
    if !ambiguous && !c.compliant(&c.centers) {
        fails.push((
            format!("C07/centre-rejected/{}/{}{}", class(f, t), ctor.name(), if others == Others::Equal { "/others-from==to" } else { "" }),
            format!("limits [{f}, {t}] deg on joint {}: reported centres {:?} are not compliant", joint + 1, c.centers),
        ));
    }
    // filter == pointwise compliant
    let probes: Vec<[f64; 6]> = (-8..=8)
        .map(|k| {
            let mut q = [0.1; 6];
            q[joint] = (k as f64 * 50.0 + 7.0f64).to_radians();
            q
        })
        .collect();
    let filtered = c.filter(&probes);
    let pointwise: Vec<[f64; 6]> = probes.iter().filter(|q| c.compliant(q)).cloned().collect();
    if filtered != pointwise {
        fails.push((
            format!("C07/filter-mismatch/{}", ctor.name()),
            format!("filter kept {} of {} probes, pointwise compliant keeps {}", filtered.len(), probes.len(), pointwise.len()),
        ));
    }
    fails
}

/// Operation sequences: constructor then up to two update_range calls; final state must equal
/// a fresh `new(last range, first weight)` field by field.
fn op_sequences(rep: &mut Report) {
    let ranges: [([f64; 6], [f64; 6]); 4] = [
        ([-1.0; 6], [1.0; 6]),
        ([2.0, 5.0, 0.0, -3.0, 6.0, 1.0], [1.0, 0.5, 0.0, 3.0, -6.0, 1.5]),
        ([0.0; 6], [0.0; 6]),
        ([-7.0, 3.0, 3.0, 0.1, -0.1, 6.5], [7.0, -3.0, 3.5, 0.2, 0.1, 0.2]),
    ];
    let weights = [0.0, 0.3, 1.0];
    let same = |a: &Constraints, b: &Constraints| {
        let eq = |x: &[f64; 6], y: &[f64; 6]| x.iter().zip(y).all(|(p, q)| p.to_bits() == q.to_bits());
        eq(&a.from, &b.from)
            && eq(&a.to, &b.to)
            && eq(&a.centers, &b.centers)
            && eq(&a.tolerances, &b.tolerances)
            && a.sorting_weight.to_bits() == b.sorting_weight.to_bits()
    };
    let mut frontier: Vec<(Vec<usize>, Constraints, f64)> = Vec::new();
    for (wi, w) in weights.iter().enumerate() {
        for (ri, r) in ranges.iter().enumerate() {
            frontier.push((vec![wi, ri], Constraints::new(r.0, r.1, *w), *w));
            let deg = Constraints::from_degrees(
                std::array::from_fn(|i| r.0[i].to_degrees()..=r.1[i].to_degrees()),
                *w,
            );
            // from_degrees(to_degrees(x)) need not be bit-equal to x: compare semantics through the radians it holds
            let again = Constraints::new(deg.from, deg.to, *w);
            rep.states += 1;
            rep.transitions += 2;
            if !same(&deg, &again) {
                rep.fail(
                    "C07/from_degrees-state",
                    0,
                    json!({"kind":"ops","ops":[wi, ri],"note":"from_degrees vs new on the same radians"}),
                    "from_degrees builds a different state than new on the radians it stores",
                );
            }
        }
    }
    for _depth in 0..2 {
        let mut next = Vec::new();
        for (hist, c, w) in &frontier {
            for (ri, r) in ranges.iter().enumerate() {
                let mut c2 = *c;
                c2.update_range(r.0, r.1);
                let fresh = Constraints::new(r.0, r.1, *w);
                rep.states += 1;
                rep.transitions += 1;
                let mut h = hist.clone();
                h.push(ri);
                if !same(&c2, &fresh) {
                    rep.fail(
                        "C07/update_range-state",
                        0,
                        json!({"kind":"ops","ops":h}),
                        format!("after ops {h:?} the state differs from a fresh new(range, weight): {c2:?} vs {fresh:?}"),
                    );
                }
                next.push((h, c2, *w));
            }
        }
        frontier = next;
    }
    rep.sig("ops-explored");
}

/// The URDF encoding of "no limit": a joint without a <limit> element comes out as from == to and accepts every angle,
/// whatever limited siblings precede or follow it in the document.
fn urdf_no_limit(rep: &mut Report, base_case: u64) {
    let origins = ["0 0 0.45", "0.15 0 0", "0 0 0.6", "0 0 0.2", "0 0 0.64", "0 0 0.1"];
    let axes = ["0 0 1", "0 1 0", "0 1 0", "0 0 1", "0 1 0", "0 0 1"];
    let lims: [(f64, f64); 6] = [(-2.9, 2.9), (-1.7, 2.4), (-2.4, 1.2), (-3.0, 3.0), (-2.0, 2.0), (-1.1, 0.4)];
    let orders: [[usize; 6]; 4] = [[0, 1, 2, 3, 4, 5], [5, 4, 3, 2, 1, 0], [3, 0, 5, 1, 4, 2], [1, 3, 5, 0, 2, 4]];
    let mut case = base_case;
    for mask in [0b000000u32, 0b100000, 0b001000, 0b101000, 0b010101, 0b111111, 0b000001] {
        for order in orders {
            case += 1;
            let mut xml = String::from("<?xml version=\"1.0\"?>\n<robot name=\"r\">\n");
            for &j in &order {
                xml.push_str(&format!("<joint name=\"joint_{}\" type=\"revolute\">\n  <origin xyz=\"{}\" rpy=\"0 0 0\"/>\n  <axis xyz=\"{}\"/>\n", j + 1, origins[j], axes[j]));
                if mask & (1 << j) == 0 {
                    xml.push_str(&format!("  <limit lower=\"{}\" upper=\"{}\" effort=\"0\" velocity=\"1\"/>\n", lims[j].0, lims[j].1));
                }
                xml.push_str("</joint>\n");
            }
            xml.push_str("</robot>\n");
            rep.states += 1;
            let parsed = std::panic::catch_unwind(|| rs_opw_kinematics::urdf::from_urdf(xml.clone(), &None));
            let Ok(Ok(u)) = parsed else {
                rep.fail("C07/urdf-no-limit/rejected".to_string(), case, json!({"kind": "urdf", "xml": xml}), "a well-formed description was rejected or panicked".to_string());
                continue;
            };
            let cons = u.constraints(0.0);
            for j in 0..6 {
                for probe in [0.1, -2.0, 3.1, -5.0, 100.0, 0.39, -1.09, 0.41, -1.11] {
                    let mut q = [0.0; 6];
                    q[j] = probe;
                    rep.transitions += 1;
                    let got = cons.compliant(&q);
                    let want = if mask & (1 << j) != 0 { ArcVerdict::Inside } else { arc_member(lims[j].0, lims[j].1, probe, 1e-9) };
                    if (want == ArcVerdict::Inside && !got) || (want == ArcVerdict::Outside && got) {
                        rep.fail(
                            format!("C07/urdf-no-limit/{}", if mask & (1 << j) != 0 { "unlimited-joint-restricted" } else { "limited-joint" }),
                            case,
                            json!({"kind": "urdf", "xml": xml}),
                            format!("joint {} (order {:?}, joints without <limit>: mask {:06b}): compliant({probe}) = {got}, expected {want:?}", j + 1, order, mask),
                        );
                    }
                }
            }
            rep.sig(format!("urdf-no-limit:mask{:06b}", mask));
        }
    }
}

/// The constraint set as a robot reports it (`Kinematics::constraints()`), for 6-DOF and 5-DOF robots, bare and behind a tool:
/// what it accepts must be arc membership on the limits *it reports*.
fn robot_readback(rep: &mut Report, base_case: u64) {
    use rs_opw_kinematics::kinematic_traits::Kinematics;
    let mut case = base_case;
    for dof in [6i8, 5] {
        for (jf, jt) in [(-40.0f64, 100.0f64), (170.0, -170.0), (-10.0, 50.0), (20.0, 20.0)] {
            for wrapped in [false, true] {
                case += 1;
                let mut from = [-2.0, -1.5, -2.5, -3.0, -2.0, 0.0];
                let mut to = [2.0, 1.5, 2.5, 3.0, 2.0, 0.0];
                from[5] = jf.to_radians();
                to[5] = jt.to_radians();
                let mut p = crate::common::robots::make(0.1, -0.1, 0.0, [0.6, 0.7, 0.75, 0.09], [1; 6], [0.0; 6], 6);
                p.dof = dof;
                let core = rs_opw_kinematics::kinematics_impl::OPWKinematics::new_with_constraints(p, Constraints::new(from, to, 0.3));
                let robot: std::sync::Arc<dyn Kinematics> = if wrapped {
                    std::sync::Arc::new(rs_opw_kinematics::tool::Tool { robot: std::sync::Arc::new(core), tool: nalgebra::Isometry3::translation(0.0, 0.0, 0.1) })
                } else {
                    std::sync::Arc::new(core)
                };
                rep.states += 1;
                let Some(reported) = robot.constraints().as_ref().copied() else {
                    rep.fail("C07/robot-readback/no-constraints".to_string(), case, json!({"kind": "readback"}), format!("a dof-{dof} robot built with limits reports none"));
                    continue;
                };
                for joint in [5usize, 3] {
                    for deg in (-144..=144).map(|k| k as f64 * 5.0 + 0.37) {
                        let mut q = [0.1, 0.2, -0.3, 0.4, 0.5, 0.0];
                        q[joint] = deg.to_radians();
                        rep.transitions += 1;
                        let got = reported.compliant(&q);
                        let want = arc_member6(&reported.from, &reported.to, &q, 1e-9);
                        if (want == ArcVerdict::Inside && !got) || (want == ArcVerdict::Outside && got) {
                            rep.fail(
                                format!("C07/robot-readback/dof{dof}{}", if wrapped { "/behind-tool" } else { "" }),
                                case,
                                json!({"kind": "readback"}),
                                format!("limits reported by the robot: J{} from {} to {}; angle {deg} deg: compliant = {got}, arc membership = {want:?}", joint + 1, reported.from[joint], reported.to[joint]),
                            );
                            break;
                        }
                    }
                }
                rep.sig(format!("readback:dof{dof}:{}", if wrapped { "tool" } else { "bare" }));
            }
        }
    }
}

/// Threshold sweep: ranges that are almost empty, almost a full turn, or written with zeros of either sign.
fn special_ranges(rep: &mut Report, base_case: u64) {
    let ctors = [Ctor::Radians, Ctor::Degrees, Ctor::UpdateRange];
    let lad: Vec<f64> = crate::common::ladder::ladder(&["constraints.rs"]).into_iter().filter(|d| *d >= 1e-8).collect();
    let mut case = base_case;
    let mut run = |rep: &mut Report, ctor: Ctor, joint: usize, f: f64, t: f64, a: f64, shift: f64, tag: &str| {
        case += 1;
        rep.transitions += 1;
        match decide(ctor, joint, f, t, a, shift, Others::Wide) {
            Ok(None) => rep.skipped_boundary += 1,
            Ok(Some(v)) => rep.sig(format!("special:{tag}:{}:{}", if v { "accept" } else { "reject" }, ctor.name())),
            Err((k, d)) => rep.fail(format!("{k}/{tag}"), case, case_json(ctor, joint, f, t, a, shift, Others::Wide), d),
        }
    };
    for (ci, &ctor) in ctors.iter().enumerate() {
        // zeros of either sign are the same number: from == to, every angle accepted
        for (f, t) in [(-0.0f64, 0.0f64), (0.0, -0.0), (-0.0, -0.0)] {
            for a in [0.0, 33.0, -180.0, 359.0, 1e-7] {
                for joint in 0..6 {
                    run(rep, ctor, joint, f, t, a, 0.0, "signed-zero");
                }
            }
        }
        for (di, &d) in lad.iter().enumerate() {
            let dd = d.to_degrees();
            let joint = (di + ci) % 6;
            for base in [0.0f64, 35.0, -180.0, 170.0] {
                // narrow arc [base, base + d] and its complement [base + d, base] (wrapping, almost a full turn)
                for (f, t, tag) in [(base, base + dd, "narrow"), (base + dd, base, "almost-full-wrapping"), (base - 180.0 + dd, base + 180.0 - dd, "almost-full")] {
                    if !(f != t) {
                        continue;
                    }
                    let centre = if tag == "almost-full" { base + 180.0 } else { base };
                    // probes: the middle of the narrow arc / of the excluded sliver, and points 1.5 d on either side of it
                    let probes: [f64; 3] = if tag == "almost-full" { [0.0, -2.5 * d, 2.5 * d] } else { [0.5 * d, -1.5 * d, 2.5 * d] };
                    for sh in probes {
                        run(rep, ctor, joint, f, t, centre, sh, tag);
                    }
                }
            }
        }
    }
    rep.set("special_ranges", json!({"ladder_values": lad.len(), "kinds": ["signed-zero", "narrow", "almost-full-wrapping", "almost-full"]}));
}

pub fn run(ctx: &Ctx) -> Report {
    let step: i64 = if ctx.quick() { 5 } else { 2 };
    let lo = -720 / step;
    let hi = 720 / step;
    let span = (hi - lo + 1) as usize;
    let ctors = [Ctor::Radians, Ctor::Degrees, Ctor::UpdateRange];
    let shifts = [0.0, std::f64::consts::SQRT_2 * 1e-3, -std::f64::consts::E * 1e-3, std::f64::consts::PI * 1e-2, -1.618033988749895e-2, 0.5772156649015329e-4];
    let sizes = [ctors.len(), span, span];
    let n = par::product(&sizes);
    let mut rep = par::run(n, |idx, r| {
        let mut ix = [0usize; 3];
        par::decode(idx, &sizes, &mut ix);
        let ctor = ctors[ix[0]];
        let f = ((lo + ix[1] as i64) * step) as f64;
        let t = ((lo + ix[2] as i64) * step) as f64;
        let joint = (ix[1] + ix[2]) % 6;
        r.states += 1;
        for others in [Others::Wide, Others::Equal] {
            // the "others from==to" isolation is run on every 4th pair (it only adds the unconstrained-neighbour aspect)
            if others == Others::Equal && (ix[1] * 7 + ix[2]) % 4 != 0 {
                continue;
            }
            for (k, d) in derived(ctor, joint, f, t, others) {
                r.fail(k, idx, json!({"kind":"derived","ctor":ctor.name(),"joint":joint,"from_deg":f,"to_deg":t,
                    "others": if others == Others::Equal {"equal"} else {"wide"}}), d);
            }
            for ai in 0..span {
                let a = ((lo + ai as i64) * step) as f64;
                // shifted angles on a third of the lattice, rotating
                let shift = if (ai + ix[1] + ix[2]) % 3 == 0 { shifts[(ai / 3 + ix[1]) % 6] } else { 0.0 };
                r.transitions += 1;
                match decide(ctor, joint, f, t, a, shift, others) {
                    Ok(None) => r.skipped_boundary += 1,
                    Ok(Some(v)) => {
                        r.sig(format!("{}:{}:{}", class(f, t), if v { "accept" } else { "reject" }, ctor.name()));
                    }
                    Err((k, d)) => r.fail(k, idx, case_json(ctor, joint, f, t, a, shift, others), d),
                }
            }
        }
        if idx % 5003 == 0 {
            r.sample(|| case_json(ctor, joint, f, t, f + 20.0, 0.0, Others::Wide));
        }
    });
    op_sequences(&mut rep);
    special_ranges(&mut rep, n + 10_000);
    urdf_no_limit(&mut rep, n + 5_000_000);
    robot_readback(&mut rep, n + 6_000_000);
    rep.traces_validated = rep.transitions;
    rep.rule = format!(
        "(from,to) on the {step}-degree lattice of [-720,720]^2 x angle on the same lattice (a third shifted by one of sqrt2*1e-3, -e*1e-3, pi*1e-2, -phi*1e-2, gamma*1e-4 rad) x \
         constructors {{new, from_degrees, update_range}} x neighbours {{wide range, from==to}}; oracle = arc membership by definition; \
         lattice points on an arc end are skipped_boundary except the exactly decidable family from=0; reversed ranges with from = to (mod 360) \
         are ambiguous by the statement and skipped; plus centre-accepted, filter==pointwise, and constructor/update_range sequences to depth 3; the constraint set read back from 6-DOF and 5-DOF robots (bare, behind a tool) judged on the limits it reports; \
         signature = (range class, verdict, constructor)"
    );
    rep.set("axes", json!({"step_deg": step, "from_values": span, "to_values": span, "angles": span, "constructors": 3}));
    rep.assumptions.push("lattice-relative: limits and angles are multiples of the lattice step (plus the two irrational shifts)".into());
    rep
}

pub fn replay(case: &Value) -> Vec<String> {
    match case["kind"].as_str().unwrap_or("") {
        "readback" => {
            let mut rep = Report::new();
            robot_readback(&mut rep, 0);
            rep.fails.iter().map(|f| format!("{}: {}", f.key, f.detail)).collect()
        }
        "urdf" => {
            // the sweep is small and deterministic: re-run it and report what concerns this document
            let mut rep = Report::new();
            urdf_no_limit(&mut rep, 0);
            rep.fails.iter().filter(|f| f.case["xml"] == case["xml"]).map(|f| format!("{}: {}", f.key, f.detail)).collect()
        }
        "decision" => {
            let others = if case["others"] == "equal" { Others::Equal } else { Others::Wide };
            match decide(
                Ctor::from_name(case["ctor"].as_str().unwrap()),
                case["joint"].as_u64().unwrap() as usize,
                as_num(&case["from_deg"]),
                as_num(&case["to_deg"]),
                as_num(&case["angle_deg"]),
                as_num(&case["shift_rad"]),
                others,
            ) {
                Err((k, d)) => vec![format!("{k}: {d}")],
                _ => vec![],
            }
        }
        "derived" => {
            let others = if case["others"] == "equal" { Others::Equal } else { Others::Wide };
            derived(
                Ctor::from_name(case["ctor"].as_str().unwrap()),
                case["joint"].as_u64().unwrap() as usize,
                as_num(&case["from_deg"]),
                as_num(&case["to_deg"]),
                others,
            )
            .into_iter()
            .map(|(k, d)| format!("{k}: {d}"))
            .collect()
        }
        _ => {
            let mut r = Report::new();
            op_sequences(&mut r);
            r.fails.into_iter().map(|f| format!("{}: {}", f.key, f.detail)).collect()
        }
    }
}
