//! E4: a token-passing controller for the strategy race of Cartesian::plan and a stateless DFS explorer.
//!
//! Exactly one controlled thread runs at a time. Every hook point (and thread start / end) hands the
//! decision "who runs next" to the explorer, which replays a prefix of choices and then takes choice 0
//! (canonical order: the running thread first if still enabled, then ascending ids).

use rs_opw_kinematics::verif_hooks::Controller;
use std::sync::{Condvar, Mutex};

#[derive(Clone, Debug, PartialEq)]
pub enum ChoiceKind {
    /// which thread runs next; `preempts`: option k > 0 switches away from a runnable thread
    Next { options: Vec<usize>, running_enabled: bool },
    /// a not-yet-started item while a result already exists: 0 = skip it (as rayon does), 1 = run it anyway
    SkipOrRun { item: usize },
    /// which of several results is reported: index into `producers`
    Winner { producers: Vec<usize> },
}

#[derive(Clone, Debug)]
pub struct Choice {
    pub kind: ChoiceKind,
    pub chosen: usize,
}

impl Choice {
    pub fn arity(&self) -> usize {
        match &self.kind {
            ChoiceKind::Next { options, .. } => options.len(),
            ChoiceKind::SkipOrRun { .. } => 2,
            ChoiceKind::Winner { producers } => producers.len(),
        }
    }
}

#[derive(Clone, Copy, Debug, PartialEq)]
enum St {
    NotStarted,
    Parked,
    Running,
    Done,
    Skipped,
}

#[derive(Default)]
struct State {
    status: Vec<St>,
    produced: Vec<bool>,
    current: Option<usize>,
    prefix: Vec<usize>,
    choices: Vec<Choice>,
    /// (item, label) in execution order
    events: Vec<(usize, &'static str)>,
    found: bool,
    finished: bool,
    divergence: Option<String>,
    non_yield_labels: Vec<&'static str>,
}

impl State {
    fn decide(&mut self, kind: ChoiceKind) -> usize {
        let arity = match &kind {
            ChoiceKind::Next { options, .. } => options.len(),
            ChoiceKind::SkipOrRun { .. } => 2,
            ChoiceKind::Winner { producers } => producers.len(),
        };
        let pos = self.choices.len();
        let chosen = if pos < self.prefix.len() {
            let c = self.prefix[pos];
            if c >= arity {
                self.divergence = Some(format!("replayed choice {c} at position {pos} but only {arity} options exist ({kind:?})"));
                0
            } else {
                c
            }
        } else {
            0
        };
        self.choices.push(Choice { kind, chosen });
        chosen
    }

    /// Picks the next thread to run (None when everything is done). `me` is the deciding thread.
    fn schedule_next(&mut self, me: Option<usize>) -> Option<usize> {
        loop {
            let mut options: Vec<usize> = Vec::new();
            let running_enabled = me.map_or(false, |m| self.status[m] == St::Parked);
            if let Some(m) = me {
                if running_enabled {
                    options.push(m);
                }
            }
            for i in 0..self.status.len() {
                if Some(i) != me && matches!(self.status[i], St::NotStarted | St::Parked) {
                    options.push(i);
                }
            }
            if options.is_empty() {
                return None;
            }
            let k = if options.len() == 1 { 0 } else { self.decide(ChoiceKind::Next { options: options.clone(), running_enabled }) };
            let t = options[k];
            if self.status[t] == St::NotStarted && self.found {
                // rayon stops handing out items once a result exists; the race "already picked up" is the alternative
                if self.decide(ChoiceKind::SkipOrRun { item: t }) == 0 {
                    self.status[t] = St::Skipped;
                    continue;
                }
            }
            return Some(t);
        }
    }
}

pub struct TokenController {
    st: Mutex<State>,
    cv: Condvar,
}

pub struct RunRecord {
    pub choices: Vec<Choice>,
    pub events: Vec<(usize, &'static str)>,
    pub divergence: Option<String>,
    pub skipped: Vec<usize>,
}

impl TokenController {
    pub fn new(prefix: &[usize]) -> TokenController {
        TokenController {
            st: Mutex::new(State { prefix: prefix.to_vec(), non_yield_labels: vec!["rrt.start"], ..Default::default() }),
            cv: Condvar::new(),
        }
    }

    pub fn record(&self) -> RunRecord {
        let s = self.st.lock().unwrap();
        RunRecord {
            choices: s.choices.clone(),
            events: s.events.clone(),
            divergence: s.divergence.clone(),
            skipped: (0..s.status.len()).filter(|&i| s.status[i] == St::Skipped).collect(),
        }
    }

    fn wait_for_turn<'a>(&'a self, mut g: std::sync::MutexGuard<'a, State>, me: usize) -> std::sync::MutexGuard<'a, State> {
        while g.current != Some(me) && !(g.status[me] == St::Skipped) {
            g = self.cv.wait(g).unwrap();
        }
        g
    }
}

impl Controller for TokenController {
    fn point(&self, label: &'static str) {
        let me = rs_opw_kinematics::verif_hooks::current_item();
        let mut g = self.st.lock().unwrap();
        g.events.push((me, label));
        if g.non_yield_labels.contains(&label) {
            return;
        }
        g.status[me] = St::Parked;
        let next = g.schedule_next(Some(me)).expect("the parked thread itself is enabled");
        g.current = Some(next);
        if next != me {
            self.cv.notify_all();
            g = self.wait_for_turn(g, me);
        }
        g.status[me] = St::Running;
    }

    fn run_parallel(&self, n: usize, body: &(dyn Fn(usize) -> bool + Sync)) -> Option<usize> {
        {
            let mut g = self.st.lock().unwrap();
            g.status = vec![St::NotStarted; n];
            g.produced = vec![false; n];
            g.found = false;
            g.finished = false;
            let first = g.schedule_next(None);
            g.current = first;
            if first.is_none() {
                g.finished = true;
            }
        }
        std::thread::scope(|sc| {
            for i in 0..n {
                sc.spawn(move || {
                    {
                        let g = self.st.lock().unwrap();
                        let mut g = self.wait_for_turn(g, i);
                        if g.status[i] == St::Skipped {
                            return;
                        }
                        g.status[i] = St::Running;
                        g.events.push((i, "start"));
                    }
                    // The body's nested rayon calls (collision checks) run inline on a private one-thread pool:
                    // no cross-thread hand-off per check, and nothing else can be scheduled onto this thread.
                    let pool = rayon::ThreadPoolBuilder::new().num_threads(1).build().expect("pool");
                    let produced = pool.install(|| body(i));
                    let mut g = self.st.lock().unwrap();
                    g.events.push((i, if produced { "end:some" } else { "end:none" }));
                    g.status[i] = St::Done;
                    g.produced[i] = produced;
                    if produced {
                        g.found = true;
                    }
                    let next = g.schedule_next(Some(i));
                    g.current = next;
                    if next.is_none() {
                        g.finished = true;
                    }
                    self.cv.notify_all();
                });
            }
            // skipped threads wake up through notify_all when their status changes
            let mut g = self.st.lock().unwrap();
            while !g.finished {
                self.cv.notify_all();
                let (ng, _) = self.cv.wait_timeout(g, std::time::Duration::from_millis(20)).unwrap();
                g = ng;
            }
            self.cv.notify_all();
        });
        let mut g = self.st.lock().unwrap();
        let producers: Vec<usize> = (0..n).filter(|&i| g.produced[i]).collect();
        match producers.len() {
            0 => None,
            1 => Some(producers[0]),
            _ => {
                let k = g.decide(ChoiceKind::Winner { producers: producers.clone() });
                Some(producers[k])
            }
        }
    }
}

/// Number of preemptions in a choice sequence (switching away from a still-runnable thread).
pub fn preemptions(choices: &[Choice]) -> usize {
    choices
        .iter()
        .filter(|c| matches!(&c.kind, ChoiceKind::Next { running_enabled: true, .. }) && c.chosen != 0)
        .count()
}

/// Stateless depth-first exploration. `run(prefix)` executes one schedule and returns its record;
/// `visit` sees every record. Returns (schedules run, whether the bound cut anything).
pub fn explore<R, V>(bound: Option<usize>, cap: usize, mut run: R, mut visit: V) -> (usize, bool, bool)
where
    R: FnMut(&[usize]) -> RunRecord,
    V: FnMut(&[usize], &RunRecord),
{
    let mut stack: Vec<Vec<usize>> = vec![vec![]];
    let mut runs = 0usize;
    let mut cut = false;
    let mut capped = false;
    while let Some(prefix) = stack.pop() {
        if runs >= cap {
            capped = true;
            break;
        }
        let rec = run(&prefix);
        runs += 1;
        visit(&prefix, &rec);
        let chosen: Vec<usize> = rec.choices.iter().map(|c| c.chosen).collect();
        for i in (prefix.len()..rec.choices.len()).rev() {
            for alt in 1..rec.choices[i].arity() {
                if let Some(b) = bound {
                    let mut trial = rec.choices[..=i].to_vec();
                    trial[i].chosen = alt;
                    if preemptions(&trial) > b {
                        cut = true;
                        continue;
                    }
                }
                let mut next = chosen[..i].to_vec();
                next.push(alt);
                stack.push(next);
            }
        }
    }
    (runs, cut, capped)
}
