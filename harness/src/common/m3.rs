//! Hand-written 3-D rigid-motion arithmetic in f64 (deliberately not nalgebra, not the crate).

pub type V3 = [f64; 3];
pub type M3 = [[f64; 3]; 3];

#[derive(Clone, Copy, Debug, PartialEq)]
pub struct Iso {
    pub r: M3,
    pub t: V3,
}

pub const I3: M3 = [[1.0, 0.0, 0.0], [0.0, 1.0, 0.0], [0.0, 0.0, 1.0]];

pub fn add(a: V3, b: V3) -> V3 {
    [a[0] + b[0], a[1] + b[1], a[2] + b[2]]
}
pub fn sub(a: V3, b: V3) -> V3 {
    [a[0] - b[0], a[1] - b[1], a[2] - b[2]]
}
pub fn scale(a: V3, s: f64) -> V3 {
    [a[0] * s, a[1] * s, a[2] * s]
}
pub fn dot(a: V3, b: V3) -> f64 {
    a[0] * b[0] + a[1] * b[1] + a[2] * b[2]
}
pub fn cross(a: V3, b: V3) -> V3 {
    [
        a[1] * b[2] - a[2] * b[1],
        a[2] * b[0] - a[0] * b[2],
        a[0] * b[1] - a[1] * b[0],
    ]
}
pub fn norm(a: V3) -> f64 {
    dot(a, a).sqrt()
}
pub fn normalize(a: V3) -> V3 {
    scale(a, 1.0 / norm(a))
}
pub fn dist(a: V3, b: V3) -> f64 {
    norm(sub(a, b))
}

pub fn mmul(a: &M3, b: &M3) -> M3 {
    let mut c = [[0.0; 3]; 3];
    for i in 0..3 {
        for j in 0..3 {
            c[i][j] = a[i][0] * b[0][j] + a[i][1] * b[1][j] + a[i][2] * b[2][j];
        }
    }
    c
}
pub fn mvec(a: &M3, v: V3) -> V3 {
    [
        a[0][0] * v[0] + a[0][1] * v[1] + a[0][2] * v[2],
        a[1][0] * v[0] + a[1][1] * v[1] + a[1][2] * v[2],
        a[2][0] * v[0] + a[2][1] * v[1] + a[2][2] * v[2],
    ]
}
pub fn transpose(a: &M3) -> M3 {
    let mut c = [[0.0; 3]; 3];
    for i in 0..3 {
        for j in 0..3 {
            c[i][j] = a[j][i];
        }
    }
    c
}
pub fn col(a: &M3, j: usize) -> V3 {
    [a[0][j], a[1][j], a[2][j]]
}
pub fn det(a: &M3) -> f64 {
    a[0][0] * (a[1][1] * a[2][2] - a[1][2] * a[2][1])
        - a[0][1] * (a[1][0] * a[2][2] - a[1][2] * a[2][0])
        + a[0][2] * (a[1][0] * a[2][1] - a[1][1] * a[2][0])
}
pub fn rotx(a: f64) -> M3 {
    let (s, c) = a.sin_cos();
    [[1.0, 0.0, 0.0], [0.0, c, -s], [0.0, s, c]]
}
pub fn roty(a: f64) -> M3 {
    let (s, c) = a.sin_cos();
    [[c, 0.0, s], [0.0, 1.0, 0.0], [-s, 0.0, c]]
}
pub fn rotz(a: f64) -> M3 {
    let (s, c) = a.sin_cos();
    [[c, -s, 0.0], [s, c, 0.0], [0.0, 0.0, 1.0]]
}
/// Rotation about a unit axis (Rodrigues).
pub fn rot_axis(axis: V3, a: f64) -> M3 {
    let u = normalize(axis);
    let (s, c) = a.sin_cos();
    let k = 1.0 - c;
    [
        [c + u[0] * u[0] * k, u[0] * u[1] * k - u[2] * s, u[0] * u[2] * k + u[1] * s],
        [u[1] * u[0] * k + u[2] * s, c + u[1] * u[1] * k, u[1] * u[2] * k - u[0] * s],
        [u[2] * u[0] * k - u[1] * s, u[2] * u[1] * k + u[0] * s, c + u[2] * u[2] * k],
    ]
}
/// Angle of the relative rotation a^T b, via atan2(sin, cos) so that tiny angles keep precision.
pub fn rot_angle(a: &M3, b: &M3) -> f64 {
    let d = mmul(&transpose(a), b);
    let vx = d[2][1] - d[1][2];
    let vy = d[0][2] - d[2][0];
    let vz = d[1][0] - d[0][1];
    let s = 0.5 * (vx * vx + vy * vy + vz * vz).sqrt();
    let c = 0.5 * (d[0][0] + d[1][1] + d[2][2] - 1.0);
    s.atan2(c)
}
/// Rotation vector (axis * angle) of d, angle in [0, pi].
pub fn rot_log(d: &M3) -> V3 {
    let v = [d[2][1] - d[1][2], d[0][2] - d[2][0], d[1][0] - d[0][1]];
    let s = 0.5 * norm(v);
    let c = 0.5 * (d[0][0] + d[1][1] + d[2][2] - 1.0);
    let ang = s.atan2(c);
    if s < 1e-300 {
        return [0.0, 0.0, 0.0];
    }
    scale(v, ang / (2.0 * s))
}
/// Max deviation of R^T R from identity and of det from 1.
pub fn orthonormality_defect(r: &M3) -> f64 {
    let g = mmul(&transpose(r), r);
    let mut m: f64 = (det(r) - 1.0).abs();
    for i in 0..3 {
        for j in 0..3 {
            let e = if i == j { 1.0 } else { 0.0 };
            m = m.max((g[i][j] - e).abs());
        }
    }
    m
}

impl Iso {
    pub fn identity() -> Iso {
        Iso { r: I3, t: [0.0; 3] }
    }
    pub fn new(r: M3, t: V3) -> Iso {
        Iso { r, t }
    }
    pub fn trans(x: f64, y: f64, z: f64) -> Iso {
        Iso { r: I3, t: [x, y, z] }
    }
    pub fn rot(r: M3) -> Iso {
        Iso { r, t: [0.0; 3] }
    }
    pub fn mul(&self, o: &Iso) -> Iso {
        Iso { r: mmul(&self.r, &o.r), t: add(mvec(&self.r, o.t), self.t) }
    }
    pub fn inv(&self) -> Iso {
        let rt = transpose(&self.r);
        Iso { r: rt, t: scale(mvec(&rt, self.t), -1.0) }
    }
    pub fn apply(&self, p: V3) -> V3 {
        add(mvec(&self.r, p), self.t)
    }
    pub fn z_axis(&self) -> V3 {
        col(&self.r, 2)
    }
    pub fn is_finite(&self) -> bool {
        self.t.iter().all(|x| x.is_finite()) && self.r.iter().all(|r| r.iter().all(|x| x.is_finite()))
    }
}

/// (translation distance, rotation angle) between two rigid motions.
pub fn pose_dist(a: &Iso, b: &Iso) -> (f64, f64) {
    (dist(a.t, b.t), rot_angle(&a.r, &b.r))
}

/// Angle between two directions.
pub fn dir_angle(a: V3, b: V3) -> f64 {
    norm(cross(a, b)).atan2(dot(a, b))
}

// ---------------------------------------------------------------- nalgebra bridge

use nalgebra::{Isometry3, Matrix3, Quaternion, Rotation3, Translation3, UnitQuaternion};

/// Own quaternion -> matrix formula (w, i, j, k), normalising first.
pub fn quat_to_m3(w: f64, x: f64, y: f64, z: f64) -> M3 {
    let n = (w * w + x * x + y * y + z * z).sqrt();
    let (w, x, y, z) = (w / n, x / n, y / n, z / n);
    [
        [1.0 - 2.0 * (y * y + z * z), 2.0 * (x * y - z * w), 2.0 * (x * z + y * w)],
        [2.0 * (x * y + z * w), 1.0 - 2.0 * (x * x + z * z), 2.0 * (y * z - x * w)],
        [2.0 * (x * z - y * w), 2.0 * (y * z + x * w), 1.0 - 2.0 * (x * x + y * y)],
    ]
}

pub fn from_na(p: &Isometry3<f64>) -> Iso {
    let q = p.rotation.quaternion();
    Iso {
        r: quat_to_m3(q.w, q.i, q.j, q.k),
        t: [p.translation.vector.x, p.translation.vector.y, p.translation.vector.z],
    }
}

/// Raw (un-normalised) view of the rotation, for orthonormality checks of what the crate returned.
pub fn raw_quat_norm(p: &Isometry3<f64>) -> f64 {
    let q = p.rotation.quaternion();
    (q.w * q.w + q.i * q.i + q.j * q.j + q.k * q.k).sqrt()
}

pub fn to_na(p: &Iso) -> Isometry3<f64> {
    let m = Matrix3::new(
        p.r[0][0], p.r[0][1], p.r[0][2], p.r[1][0], p.r[1][1], p.r[1][2], p.r[2][0], p.r[2][1],
        p.r[2][2],
    );
    let rot = Rotation3::from_matrix_unchecked(m);
    Isometry3::from_parts(
        Translation3::new(p.t[0], p.t[1], p.t[2]),
        UnitQuaternion::from_rotation_matrix(&rot),
    )
}

pub fn na_from_quat(t: V3, w: f64, x: f64, y: f64, z: f64) -> Isometry3<f64> {
    Isometry3::from_parts(
        Translation3::new(t[0], t[1], t[2]),
        UnitQuaternion::from_quaternion(Quaternion::new(w, x, y, z)),
    )
}
