//! Synthetic robot cell: box meshes on a known OPW geometry, environment layouts, safety tables,
//! construction of the real RobotBody / KinematicsWithShape and the brute-force pair oracle PAIRS_ref.

use super::fkref;
use super::geom::*;
use super::m3::*;
use super::stack::Limits;
use rs_opw_kinematics::collisions::{BaseBody, CheckMode, CollisionBody, RobotBody, SafetyDistances, NEVER_COLLIDES};
use rs_opw_kinematics::constraints::Constraints;
use rs_opw_kinematics::kinematic_traits::{Joints, Kinematics, ENV_START_IDX, J_BASE, J_TOOL};
use rs_opw_kinematics::kinematics_impl::OPWKinematics;
use rs_opw_kinematics::kinematics_with_shape::KinematicsWithShape;
use rs_opw_kinematics::parameters::opw_kinematics::Parameters;
use rs_opw_kinematics::tool::{Base, Tool};
use serde_json::{json, Value};
use std::collections::{BTreeMap, BTreeSet};
use std::sync::Arc;

pub fn cell_params() -> Parameters {
    Parameters {
        a1: 0.15,
        a2: 0.0,
        b: 0.0,
        c1: 0.5,
        c2: 0.6,
        c3: 0.6,
        c4: 0.1,
        offsets: [0.0; 6],
        sign_corrections: [1; 6],
        dof: 6,
    }
}

/// Link meshes in their link frames; `subdiv[i]` changes only the vertex count, not the shape.
pub fn link_meshes(subdiv: &[usize; 6]) -> [Mesh; 6] {
    [
        Mesh::boxed([-0.08, -0.08, -0.25], [0.23, 0.08, 0.08], subdiv[0]),
        Mesh::boxed([-0.05, -0.05, 0.10], [0.05, 0.05, 0.50], subdiv[1]),
        Mesh::boxed([-0.05, -0.05, -0.05], [0.05, 0.05, 0.10], subdiv[2]),
        Mesh::boxed([-0.04, -0.04, 0.15], [0.04, 0.04, 0.50], subdiv[3]),
        Mesh::boxed([-0.04, -0.04, -0.05], [0.04, 0.04, 0.04], subdiv[4]),
        Mesh::boxed([-0.03, -0.03, -0.02], [0.03, 0.03, 0.00], subdiv[5]),
    ]
}
pub fn tool_mesh(n: usize) -> Mesh {
    Mesh::boxed([-0.01, -0.01, 0.0], [0.01, 0.01, 0.25], n)
}
pub fn base_mesh(n: usize) -> Mesh {
    Mesh::boxed([-0.12, -0.12, 0.0], [0.12, 0.12, 0.20], n)
}

#[derive(Clone, Debug)]
pub struct SafetyDesc {
    pub to_env: f32,
    pub to_robot: f32,
    pub special: Vec<((usize, usize), f32)>,
    pub mode: u8, // 0 first, 1 all, 2 none
}

impl SafetyDesc {
    pub fn touch(mode: u8) -> SafetyDesc {
        SafetyDesc { to_env: 0.0, to_robot: 0.0, special: vec![], mode }
    }
    pub fn build(&self) -> SafetyDistances {
        SafetyDistances {
            to_environment: self.to_env,
            to_robot_default: self.to_robot,
            special_distances: SafetyDistances::distances(&self.special),
            mode: match self.mode {
                0 => CheckMode::FirstCollisionOnly,
                1 => CheckMode::AllCollsions,
                _ => CheckMode::NoCheck,
            },
        }
    }
    /// r for a pair by the documented lookup (order-insensitive; environment default vs robot default).
    pub fn r(&self, a: usize, b: usize) -> f32 {
        for ((x, y), v) in &self.special {
            if (*x == a && *y == b) || (*x == b && *y == a) {
                return *v;
            }
        }
        if a >= ENV_START_IDX || b >= ENV_START_IDX {
            self.to_env
        } else {
            self.to_robot
        }
    }
    pub fn json(&self) -> Value {
        json!({"to_env": self.to_env, "to_robot": self.to_robot, "mode": self.mode,
            "special": self.special.iter().map(|((a,b),v)| json!([a,b,v])).collect::<Vec<_>>()})
    }
    pub fn from_json(v: &Value) -> SafetyDesc {
        SafetyDesc {
            to_env: v["to_env"].as_f64().unwrap() as f32,
            to_robot: v["to_robot"].as_f64().unwrap() as f32,
            mode: v["mode"].as_u64().unwrap() as u8,
            special: v["special"]
                .as_array()
                .unwrap()
                .iter()
                .map(|e| ((e[0].as_u64().unwrap() as usize, e[1].as_u64().unwrap() as usize), e[2].as_f64().unwrap() as f32))
                .collect(),
        }
    }
}

#[derive(Clone, Debug)]
pub struct EnvObj {
    pub lo: [f32; 3],
    pub hi: [f32; 3],
    pub subdiv: usize,
    pub pose: Iso,
    /// 0 = the box lo..hi; 1 = the octahedron inscribed in it (does not fill the corners of its bounding box);
    /// 2 = two boxes in one mesh: lo..hi and a copy 0.9 m further along +y
    pub shape: u8,
}

impl EnvObj {
    pub fn mesh(&self) -> Mesh {
        match self.shape {
            1 => Mesh::octahedron(self.lo, self.hi, self.subdiv),
            2 => {
                let mut m = Mesh::boxed(self.lo, self.hi, self.subdiv);
                let far = Mesh::boxed([self.lo[0], self.lo[1] + 0.9, self.lo[2]], [self.hi[0], self.hi[1] + 0.9, self.hi[2]], self.subdiv);
                let off = m.verts.len() as u32;
                m.verts.extend(far.verts.iter().cloned());
                m.tris.extend(far.tris.iter().map(|t| [t[0] + off, t[1] + off, t[2] + off]));
                m
            }
            _ => Mesh::boxed(self.lo, self.hi, self.subdiv),
        }
    }
}

#[derive(Clone, Debug)]
pub struct CellDesc {
    pub params: Parameters,
    pub limits: Limits,
    pub base: Option<Iso>, // robot base transform (also the pose of the base mesh)
    pub tool: Option<Iso>, // tool transform flange -> TCP; the tool mesh sits on the flange
    pub subdiv: [usize; 6],
    pub tool_subdiv: usize,
    pub base_subdiv: usize,
    pub envs: Vec<EnvObj>,
    pub safety: SafetyDesc,
    /// outermost parallelogram coupling (driven, coupled, scaling): inner[coupled] = q[coupled] - scaling * q[driven]
    pub para: Option<(usize, usize, f64)>,
    /// 0 = the plinth under the robot (base_mesh); 1 = the plinth plus, in the same mesh, a 1.7 m post standing 0.41 m
    /// from the J1 axis in the direction J1 = 1.3 rad (a stationary robot body that is not rotationally symmetric)
    pub base_shape: u8,
}

impl CellDesc {
    pub fn base_body_mesh(&self) -> Mesh {
        let mut m = base_mesh(self.base_subdiv);
        if self.base_shape == 1 {
            let (cx, cy) = (0.41 * 1.3f32.cos(), 0.41 * 1.3f32.sin());
            let post = Mesh::boxed([cx - 0.05, cy - 0.05, 0.0], [cx + 0.05, cy + 0.05, 1.7], self.base_subdiv);
            let off = m.verts.len() as u32;
            m.verts.extend(post.verts.iter().cloned());
            m.tris.extend(post.tris.iter().map(|t| [t[0] + off, t[1] + off, t[2] + off]));
        }
        m
    }

    pub fn standard() -> CellDesc {
        CellDesc {
            params: cell_params(),
            limits: Limits { from: [-3.1; 6], to: [3.1; 6], weight: 0.0 },
            base: Some(Iso::identity()),
            tool: Some(Iso::trans(0.0, 0.0, 0.25)),
            subdiv: [1; 6],
            tool_subdiv: 1,
            base_subdiv: 1,
            envs: vec![],
            safety: SafetyDesc::touch(0),
            para: None,
            base_shape: 0,
        }
    }

    /// joint vector of the wrapped serial robot
    pub fn inner_joints(&self, q: &Joints) -> Joints {
        let mut j = *q;
        if let Some((d, c, s)) = self.para {
            j[c] -= s * q[d];
        }
        j
    }

    pub fn kinematics(&self) -> Arc<dyn Kinematics> {
        let core = OPWKinematics::new_with_constraints(self.params, self.limits.build());
        let based: Arc<dyn Kinematics> = match &self.base {
            Some(b) => Arc::new(Base { robot: Arc::new(core), base: to_na(b) }),
            None => Arc::new(core),
        };
        let tooled: Arc<dyn Kinematics> = match &self.tool {
            Some(t) => Arc::new(Tool { robot: based, tool: to_na(t) }),
            None => based,
        };
        match self.para {
            Some((driven, coupled, scaling)) => Arc::new(rs_opw_kinematics::parallelogram::Parallelogram { robot: tooled, scaling, driven, coupled }),
            None => tooled,
        }
    }

    pub fn body(&self) -> RobotBody {
        let lm = link_meshes(&self.subdiv);
        RobotBody {
            joint_meshes: lm.map(|m| m.to_parry()),
            tool: self.tool.map(|_| tool_mesh(self.tool_subdiv).to_parry()),
            base: self.base.map(|b| BaseBody { mesh: self.base_body_mesh().to_parry(), base_pose: to_na(&b).cast::<f32>() }),
            collision_environment: self
                .envs
                .iter()
                .map(|e| CollisionBody { mesh: e.mesh().to_parry(), pose: to_na(&e.pose).cast::<f32>() })
                .collect(),
            safety: self.safety.build(),
        }
    }

    pub fn robot(&self) -> KinematicsWithShape {
        assemble(self.kinematics(), self.body())
    }

    /// Reference link poses in the world.
    pub fn link_poses(&self, q: &Joints) -> [Iso; 6] {
        let l = fkref::links(&self.params, &self.inner_joints(q));
        match &self.base {
            Some(b) => l.map(|x| b.mul(&x)),
            None => l,
        }
    }

    /// Reference TCP pose.
    pub fn tcp(&self, q: &Joints) -> Iso {
        let f = self.link_poses(q)[5];
        match &self.tool {
            Some(t) => f.mul(t),
            None => f,
        }
    }

    /// Distances of all candidate pairs (body ids as reported by the library).
    pub fn pair_distances(&self, q: &Joints) -> BTreeMap<(usize, usize), f64> {
        let poses = self.link_poses(q);
        let lm = link_meshes(&self.subdiv);
        let mut bodies: Vec<(usize, Vec<[V3; 3]>)> = Vec::new();
        for i in 0..6 {
            bodies.push((i, lm[i].world_tris(&poses[i])));
        }
        if self.tool.is_some() {
            bodies.push((J_TOOL, tool_mesh(self.tool_subdiv).world_tris(&poses[5])));
        }
        if let Some(b) = &self.base {
            bodies.push((J_BASE, self.base_body_mesh().world_tris(b)));
        }
        for (k, e) in self.envs.iter().enumerate() {
            bodies.push((ENV_START_IDX + k, e.mesh().world_tris(&e.pose)));
        }
        let mut out = BTreeMap::new();
        for x in 0..bodies.len() {
            for y in (x + 1)..bodies.len() {
                let (a, b) = (bodies[x].0, bodies[y].0);
                if relevant_pair(a, b) {
                    out.insert((a.min(b), a.max(b)), mesh_dist(&bodies[x].1, &bodies[y].1));
                }
            }
        }
        out
    }

    pub fn to_json(&self) -> Value {
        use super::robots::params_json;
        use super::stack::iso_json;
        json!({
            "params": params_json(&self.params),
            "limits": {"from": self.limits.from.to_vec(), "to": self.limits.to.to_vec(), "weight": self.limits.weight},
            "base": self.base.as_ref().map(iso_json),
            "tool": self.tool.as_ref().map(iso_json),
            "subdiv": self.subdiv.to_vec(), "tool_subdiv": self.tool_subdiv, "base_subdiv": self.base_subdiv,
            "envs": self.envs.iter().map(|e| json!({"lo": e.lo.to_vec(), "hi": e.hi.to_vec(), "subdiv": e.subdiv, "pose": iso_json(&e.pose), "shape": e.shape})).collect::<Vec<_>>(),
            "safety": self.safety.json(),
            "para": self.para.map(|(d, c, s)| json!([d, c, s])),
            "base_shape": self.base_shape,
        })
    }

    pub fn from_json(v: &Value) -> CellDesc {
        use super::ev::as_arr6;
        use super::robots::params_from_json;
        use super::stack::iso_from_json;
        let f3 = |x: &Value| -> [f32; 3] {
            let a = x.as_array().unwrap();
            [a[0].as_f64().unwrap() as f32, a[1].as_f64().unwrap() as f32, a[2].as_f64().unwrap() as f32]
        };
        let sd: Vec<usize> = v["subdiv"].as_array().unwrap().iter().map(|x| x.as_u64().unwrap() as usize).collect();
        CellDesc {
            params: params_from_json(&v["params"]),
            limits: Limits { from: as_arr6(&v["limits"]["from"]), to: as_arr6(&v["limits"]["to"]), weight: v["limits"]["weight"].as_f64().unwrap() },
            base: if v["base"].is_null() { None } else { Some(iso_from_json(&v["base"])) },
            tool: if v["tool"].is_null() { None } else { Some(iso_from_json(&v["tool"])) },
            subdiv: [sd[0], sd[1], sd[2], sd[3], sd[4], sd[5]],
            tool_subdiv: v["tool_subdiv"].as_u64().unwrap() as usize,
            base_subdiv: v["base_subdiv"].as_u64().unwrap() as usize,
            envs: v["envs"]
                .as_array()
                .unwrap()
                .iter()
                .map(|e| EnvObj { lo: f3(&e["lo"]), hi: f3(&e["hi"]), subdiv: e["subdiv"].as_u64().unwrap() as usize, pose: iso_from_json(&e["pose"]), shape: e["shape"].as_u64().unwrap_or(0) as u8 })
                .collect(),
            safety: SafetyDesc::from_json(&v["safety"]),
            para: v["para"].as_array().map(|a| (a[0].as_u64().unwrap() as usize, a[1].as_u64().unwrap() as usize, a[2].as_f64().unwrap())),
            base_shape: v["base_shape"].as_u64().unwrap_or(0) as u8,
        }
    }
}

/// The pairs the property names: non-adjacent links; link or tool vs environment; tool vs links 1-4;
/// base vs links 2-6; tool vs base.
pub fn relevant_pair(a: usize, b: usize) -> bool {
    let (a, b) = (a.min(b), a.max(b));
    let is_link = |x: usize| x < 6;
    let is_env = |x: usize| x >= ENV_START_IDX;
    if is_link(a) && is_link(b) {
        return b - a >= 2;
    }
    if is_env(a) && is_env(b) {
        return false;
    }
    if is_env(b) {
        return is_link(a) || a == J_TOOL;
    }
    if is_link(a) && b == J_TOOL {
        return a <= 3;
    }
    if is_link(a) && b == J_BASE {
        return a >= 1;
    }
    a == J_TOOL && b == J_BASE
}

pub const MARGIN: f64 = 1e-3;

/// PAIRS_ref verdict for a table: (colliding pairs, boundary pairs whose verdict is not judged).
pub fn pairs_ref(dist: &BTreeMap<(usize, usize), f64>, table: &SafetyDesc) -> (BTreeSet<(usize, usize)>, BTreeSet<(usize, usize)>) {
    let mut hit = BTreeSet::new();
    let mut boundary = BTreeSet::new();
    for (&(a, b), &d) in dist {
        let r = table.r(a, b);
        if r <= NEVER_COLLIDES {
            continue;
        }
        if r == 0.0 {
            if d == 0.0 {
                hit.insert((a, b));
            } else if d < MARGIN {
                boundary.insert((a, b));
            }
        } else if r > 0.0 {
            let r = r as f64;
            if d <= r - MARGIN {
                hit.insert((a, b));
            } else if d < r + MARGIN {
                boundary.insert((a, b));
            }
        }
    }
    (hit, boundary)
}

/// A robot with shape holding exactly this kinematic stack and this body. It is built through the public constructor (so
/// the harness does not depend on the struct having only its two public fields) with checking switched off and a
/// placeholder body, and the real stack and body are then installed through the public fields: whatever the object
/// remembers from its construction must not outlive those assignments.
pub fn assemble(kinematics: Arc<dyn Kinematics>, body: RobotBody) -> KinematicsWithShape {
    let dummy = || Mesh::boxed([-0.01; 3], [0.01; 3], 1).to_parry();
    let mut robot = KinematicsWithShape::with_safety(
        cell_params(),
        Constraints::new([-1.0; 6], [1.0; 6], 0.0),
        [dummy(), dummy(), dummy(), dummy(), dummy(), dummy()],
        dummy(),
        nalgebra::Isometry3::identity(),
        dummy(),
        nalgebra::Isometry3::identity(),
        vec![],
        SafetyDistances::standard(CheckMode::NoCheck),
    );
    robot.kinematics = kinematics;
    robot.body = body;
    robot
}
