//! Synthetic meshes and an own f64 mesh-mesh distance oracle (triangle soup, brute force).

use super::m3::*;
use parry3d::math::Point;
use parry3d::shape::TriMesh;

#[derive(Clone, Debug)]
pub struct Mesh {
    pub verts: Vec<[f32; 3]>,
    pub tris: Vec<[u32; 3]>,
}

impl Mesh {
    /// Axis-aligned box [lo,hi] whose faces are subdivided n x n (n >= 1): 6*(n+1)^2 - ... vertices (shared per face only).
    pub fn boxed(lo: [f32; 3], hi: [f32; 3], n: usize) -> Mesh {
        let mut verts = Vec::new();
        let mut tris = Vec::new();
        // each face: fixed axis a at value v, spanning axes b, c
        for (a, b, c) in [(0usize, 1usize, 2usize), (1, 2, 0), (2, 0, 1)] {
            for &side in &[0usize, 1] {
                let base = verts.len() as u32;
                let va = if side == 0 { lo[a] } else { hi[a] };
                for i in 0..=n {
                    for j in 0..=n {
                        let mut p = [0.0f32; 3];
                        p[a] = va;
                        p[b] = lo[b] + (hi[b] - lo[b]) * (i as f32) / (n as f32);
                        p[c] = lo[c] + (hi[c] - lo[c]) * (j as f32) / (n as f32);
                        verts.push(p);
                    }
                }
                let w = (n + 1) as u32;
                for i in 0..n as u32 {
                    for j in 0..n as u32 {
                        let v00 = base + i * w + j;
                        let v01 = v00 + 1;
                        let v10 = v00 + w;
                        let v11 = v10 + 1;
                        tris.push([v00, v10, v01]);
                        tris.push([v01, v10, v11]);
                    }
                }
            }
        }
        Mesh { verts, tris }
    }

    /// Octahedron inscribed in the box lo..hi, each face subdivided n x n (n >= 1).
    pub fn octahedron(lo: [f32; 3], hi: [f32; 3], n: usize) -> Mesh {
        let c = [(lo[0] + hi[0]) / 2.0, (lo[1] + hi[1]) / 2.0, (lo[2] + hi[2]) / 2.0];
        let h = [(hi[0] - lo[0]) / 2.0, (hi[1] - lo[1]) / 2.0, (hi[2] - lo[2]) / 2.0];
        let mut verts: Vec<[f32; 3]> = Vec::new();
        let mut tris = Vec::new();
        for sx in [1.0f32, -1.0] {
            for sy in [1.0f32, -1.0] {
                for sz in [1.0f32, -1.0] {
                    let (a, b, d) = ([c[0] + sx * h[0], c[1], c[2]], [c[0], c[1] + sy * h[1], c[2]], [c[0], c[1], c[2] + sz * h[2]]);
                    // barycentric grid on the face a-b-d
                    let base = verts.len() as u32;
                    let idx = |i: usize, j: usize| -> u32 { base + (i * (2 * n + 3 - i) / 2 + j) as u32 };
                    for i in 0..=n {
                        for j in 0..=(n - i) {
                            let (u, v) = (i as f32 / n as f32, j as f32 / n as f32);
                            let w = 1.0 - u - v;
                            verts.push([a[0] * w + b[0] * u + d[0] * v, a[1] * w + b[1] * u + d[1] * v, a[2] * w + b[2] * u + d[2] * v]);
                        }
                    }
                    let flip = sx * sy * sz < 0.0;
                    for i in 0..n {
                        for j in 0..(n - i) {
                            let t = [idx(i, j), idx(i + 1, j), idx(i, j + 1)];
                            tris.push(if flip { [t[0], t[2], t[1]] } else { t });
                            if j + 1 < n - i {
                                let t = [idx(i + 1, j), idx(i + 1, j + 1), idx(i, j + 1)];
                                tris.push(if flip { [t[0], t[2], t[1]] } else { t });
                            }
                        }
                    }
                }
            }
        }
        Mesh { verts, tris }
    }

    pub fn to_parry(&self) -> TriMesh {
        TriMesh::new(
            self.verts.iter().map(|v| Point::new(v[0], v[1], v[2])).collect(),
            self.tris.clone(),
        )
        .expect("trimesh")
    }

    /// Triangles in world coordinates (f64) under `pose`.
    pub fn world_tris(&self, pose: &Iso) -> Vec<[V3; 3]> {
        let w: Vec<V3> = self.verts.iter().map(|v| pose.apply([v[0] as f64, v[1] as f64, v[2] as f64])).collect();
        self.tris.iter().map(|t| [w[t[0] as usize], w[t[1] as usize], w[t[2] as usize]]).collect()
    }

    pub fn vertex_count(&self) -> usize {
        self.verts.len()
    }
}

// ------------------------------------------------------------------ primitives (Ericson, Real-Time Collision Detection)

fn closest_pt_point_triangle(p: V3, t: &[V3; 3]) -> V3 {
    let (a, b, c) = (t[0], t[1], t[2]);
    let ab = sub(b, a);
    let ac = sub(c, a);
    let ap = sub(p, a);
    let d1 = dot(ab, ap);
    let d2 = dot(ac, ap);
    if d1 <= 0.0 && d2 <= 0.0 {
        return a;
    }
    let bp = sub(p, b);
    let d3 = dot(ab, bp);
    let d4 = dot(ac, bp);
    if d3 >= 0.0 && d4 <= d3 {
        return b;
    }
    let vc = d1 * d4 - d3 * d2;
    if vc <= 0.0 && d1 >= 0.0 && d3 <= 0.0 {
        let v = d1 / (d1 - d3);
        return add(a, scale(ab, v));
    }
    let cp = sub(p, c);
    let d5 = dot(ab, cp);
    let d6 = dot(ac, cp);
    if d6 >= 0.0 && d5 <= d6 {
        return c;
    }
    let vb = d5 * d2 - d1 * d6;
    if vb <= 0.0 && d2 >= 0.0 && d6 <= 0.0 {
        let w = d2 / (d2 - d6);
        return add(a, scale(ac, w));
    }
    let va = d3 * d6 - d5 * d4;
    if va <= 0.0 && (d4 - d3) >= 0.0 && (d5 - d6) >= 0.0 {
        let w = (d4 - d3) / ((d4 - d3) + (d5 - d6));
        return add(b, scale(sub(c, b), w));
    }
    let denom = 1.0 / (va + vb + vc);
    let v = vb * denom;
    let w = vc * denom;
    add(a, add(scale(ab, v), scale(ac, w)))
}

fn seg_seg_dist2(p1: V3, q1: V3, p2: V3, q2: V3) -> f64 {
    let d1 = sub(q1, p1);
    let d2 = sub(q2, p2);
    let r = sub(p1, p2);
    let a = dot(d1, d1);
    let e = dot(d2, d2);
    let f = dot(d2, r);
    let (s, t);
    const EPS: f64 = 1e-18;
    if a <= EPS && e <= EPS {
        return dot(r, r);
    }
    if a <= EPS {
        s = 0.0;
        t = (f / e).clamp(0.0, 1.0);
    } else {
        let c = dot(d1, r);
        if e <= EPS {
            t = 0.0;
            s = (-c / a).clamp(0.0, 1.0);
        } else {
            let b = dot(d1, d2);
            let denom = a * e - b * b;
            let mut ss = if denom > EPS { ((b * f - c * e) / denom).clamp(0.0, 1.0) } else { 0.0 };
            let mut tt = (b * ss + f) / e;
            if tt < 0.0 {
                tt = 0.0;
                ss = (-c / a).clamp(0.0, 1.0);
            } else if tt > 1.0 {
                tt = 1.0;
                ss = ((b - c) / a).clamp(0.0, 1.0);
            }
            s = ss;
            t = tt;
        }
    }
    let c1 = add(p1, scale(d1, s));
    let c2 = add(p2, scale(d2, t));
    let d = sub(c1, c2);
    dot(d, d)
}

/// Does segment pq cross triangle t (including touching)?
fn seg_hits_triangle(p: V3, q: V3, t: &[V3; 3]) -> bool {
    let ab = sub(t[1], t[0]);
    let ac = sub(t[2], t[0]);
    let n = cross(ab, ac);
    let dp = dot(n, sub(p, t[0]));
    let dq = dot(n, sub(q, t[0]));
    if (dp > 0.0 && dq > 0.0) || (dp < 0.0 && dq < 0.0) {
        return false;
    }
    if dp == dq {
        return false; // parallel / coplanar: handled by the distance terms
    }
    let s = dp / (dp - dq);
    let x = add(p, scale(sub(q, p), s));
    // barycentric inside test
    let v2 = sub(x, t[0]);
    let d00 = dot(ab, ab);
    let d01 = dot(ab, ac);
    let d11 = dot(ac, ac);
    let d20 = dot(v2, ab);
    let d21 = dot(v2, ac);
    let den = d00 * d11 - d01 * d01;
    if den.abs() < 1e-300 {
        return false;
    }
    let v = (d11 * d20 - d01 * d21) / den;
    let w = (d00 * d21 - d01 * d20) / den;
    v >= 0.0 && w >= 0.0 && v + w <= 1.0
}

pub fn tri_tri_dist(a: &[V3; 3], b: &[V3; 3]) -> f64 {
    // intersection
    for i in 0..3 {
        if seg_hits_triangle(a[i], a[(i + 1) % 3], b) || seg_hits_triangle(b[i], b[(i + 1) % 3], a) {
            return 0.0;
        }
    }
    let mut best = f64::INFINITY;
    for i in 0..3 {
        for j in 0..3 {
            best = best.min(seg_seg_dist2(a[i], a[(i + 1) % 3], b[j], b[(j + 1) % 3]));
        }
    }
    for i in 0..3 {
        let c = closest_pt_point_triangle(a[i], b);
        let d = sub(a[i], c);
        best = best.min(dot(d, d));
        let c = closest_pt_point_triangle(b[i], a);
        let d = sub(b[i], c);
        best = best.min(dot(d, d));
    }
    best.sqrt()
}

fn bounds(t: &[[V3; 3]]) -> (V3, V3) {
    let mut lo = [f64::INFINITY; 3];
    let mut hi = [f64::NEG_INFINITY; 3];
    for tri in t {
        for p in tri {
            for k in 0..3 {
                lo[k] = lo[k].min(p[k]);
                hi[k] = hi[k].max(p[k]);
            }
        }
    }
    (lo, hi)
}

fn box_gap(a: &(V3, V3), b: &(V3, V3)) -> f64 {
    let mut s = 0.0;
    for k in 0..3 {
        let g = (a.0[k] - b.1[k]).max(b.0[k] - a.1[k]).max(0.0);
        s += g * g;
    }
    s.sqrt()
}

/// Minimum distance between two triangle soups (0 when surfaces intersect).
/// `cutoff`: pairs of triangles whose bounding boxes are farther apart than the best so far are skipped
/// (an exact lower bound, so the result is exact).
pub fn mesh_dist(a: &[[V3; 3]], b: &[[V3; 3]]) -> f64 {
    let ba = bounds(a);
    let bb = bounds(b);
    let mut best = f64::INFINITY;
    let whole = box_gap(&ba, &bb);
    // per-triangle boxes
    let tb: Vec<(V3, V3)> = b.iter().map(|t| bounds(std::slice::from_ref(t))).collect();
    for ta in a {
        let box_a = bounds(std::slice::from_ref(ta));
        if box_gap(&box_a, &bb) > best {
            continue;
        }
        for (j, tbj) in b.iter().enumerate() {
            if box_gap(&box_a, &tb[j]) > best {
                continue;
            }
            let d = tri_tri_dist(ta, tbj);
            if d < best {
                best = d;
                if best == 0.0 {
                    return 0.0;
                }
            }
        }
    }
    best.max(whole.min(best))
}
