//! Reports, evidence files, replay artefacts, known findings.

use serde_json::{json, Map, Value};
use std::collections::{BTreeMap, BTreeSet};
use std::time::Instant;

#[derive(Clone, Copy, PartialEq, Eq, Debug)]
pub enum Tier {
    Quick,
    Thorough,
}

#[derive(Clone, Debug)]
pub struct Ctx {
    pub tier: Tier,
    pub seed: u64,
}

impl Ctx {
    pub fn quick(&self) -> bool {
        self.tier == Tier::Quick
    }
    pub fn pick<T>(&self, q: T, t: T) -> T {
        if self.quick() {
            q
        } else {
            t
        }
    }
}

/// One failing case. `key` classifies it (call site + distinguishing axis values),
/// `case` is the self-contained replay input, `detail` says observed vs expected.
#[derive(Clone, Debug)]
pub struct Fail {
    pub key: String,
    pub order: u64,
    pub case: Value,
    pub detail: String,
}

#[derive(Default, Debug)]
pub struct Report {
    /// lattice points / graph states / executions explored
    pub states: u64,
    /// real API calls / graph edges / schedule steps
    pub transitions: u64,
    /// explored traces that were executed on the implementation
    pub traces_validated: u64,
    pub evaluations: u64,
    pub skipped_boundary: u64,
    pub skipped_precondition: u64,
    /// distinct outcome signatures (must be > 1 or the run is void)
    pub signatures: BTreeSet<String>,
    pub samples: Vec<Value>,
    pub fails: Vec<Fail>,
    pub fail_count: u64,
    pub extra: BTreeMap<String, Value>,
    pub assumptions: Vec<String>,
    pub rule: String,
    pub exhaustive: bool,
    pub caps_hit: Vec<String>,
    /// machinery failure (void run etc.); makes the run exit 2
    pub machinery_errors: Vec<String>,
}

const MAX_FAILS_PER_KEY: usize = 3;
const MAX_SAMPLES: usize = 6;

impl Report {
    pub fn new() -> Report {
        Report { exhaustive: true, ..Default::default() }
    }
    pub fn sig(&mut self, s: impl Into<String>) {
        let s = s.into();
        if !self.signatures.contains(&s) {
            self.signatures.insert(s);
        }
    }
    pub fn sample(&mut self, v: impl FnOnce() -> Value) {
        if self.samples.len() < MAX_SAMPLES {
            self.samples.push(v());
        }
    }
    pub fn fail(&mut self, key: impl Into<String>, order: u64, case: Value, detail: impl Into<String>) {
        self.fail_count += 1;
        let key = key.into();
        let n = self.fails.iter().filter(|f| f.key == key).count();
        if n < MAX_FAILS_PER_KEY {
            self.fails.push(Fail { key, order, case, detail: detail.into() });
        } else {
            // keep the smallest orders for determinism
            let (mut worst_i, mut worst) = (usize::MAX, 0u64);
            for (i, f) in self.fails.iter().enumerate() {
                if f.key == key && f.order >= worst {
                    worst = f.order;
                    worst_i = i;
                }
            }
            if worst_i != usize::MAX && order < worst {
                self.fails[worst_i] = Fail { key, order, case, detail: detail.into() };
            }
        }
    }
    pub fn set(&mut self, k: &str, v: Value) {
        self.extra.insert(k.to_string(), v);
    }
    pub fn add_extra_count(&mut self, k: &str, n: u64) {
        let cur = self.extra.get(k).and_then(|v| v.as_u64()).unwrap_or(0);
        self.extra.insert(k.to_string(), json!(cur + n));
    }
    /// Merge another report (other is later in index order).
    pub fn merge(&mut self, o: Report) {
        self.states += o.states;
        self.transitions += o.transitions;
        self.traces_validated += o.traces_validated;
        self.evaluations += o.evaluations;
        self.skipped_boundary += o.skipped_boundary;
        self.skipped_precondition += o.skipped_precondition;
        self.fail_count += o.fail_count.saturating_sub(o.fails.len() as u64);
        for s in o.signatures {
            self.signatures.insert(s);
        }
        for s in o.samples {
            if self.samples.len() < MAX_SAMPLES {
                self.samples.push(s);
            }
        }
        for f in o.fails {
            self.fail(f.key, f.order, f.case, f.detail);
        }
        for (k, v) in o.extra {
            match (self.extra.get(&k).and_then(|x| x.as_u64()), v.as_u64()) {
                (Some(a), Some(b)) => {
                    self.extra.insert(k, json!(a + b));
                }
                _ => {
                    self.extra.insert(k, v);
                }
            }
        }
        for a in o.assumptions {
            if !self.assumptions.contains(&a) {
                self.assumptions.push(a);
            }
        }
        for a in o.caps_hit {
            if !self.caps_hit.contains(&a) {
                self.caps_hit.push(a);
            }
        }
        for a in o.machinery_errors {
            self.machinery_errors.push(a);
        }
        if !o.rule.is_empty() && self.rule.is_empty() {
            self.rule = o.rule;
        }
        self.exhaustive = self.exhaustive && o.exhaustive;
    }
}

// ------------------------------------------------------------------ JSON helpers

pub fn num(x: f64) -> Value {
    if x.is_nan() {
        json!("NaN")
    } else if x == f64::INFINITY {
        json!("inf")
    } else if x == f64::NEG_INFINITY {
        json!("-inf")
    } else {
        // bit-exact: store the shortest round-trip decimal (serde_json/ryu does that)
        json!(x)
    }
}
pub fn as_num(v: &Value) -> f64 {
    match v {
        Value::String(s) if s == "NaN" => f64::NAN,
        Value::String(s) if s == "inf" => f64::INFINITY,
        Value::String(s) if s == "-inf" => f64::NEG_INFINITY,
        Value::Number(n) => n.as_f64().unwrap(),
        _ => panic!("not a number: {v}"),
    }
}
pub fn nums(xs: &[f64]) -> Value {
    Value::Array(xs.iter().map(|x| num(*x)).collect())
}
pub fn as_nums(v: &Value) -> Vec<f64> {
    v.as_array().expect("array").iter().map(as_num).collect()
}
pub fn as_arr6(v: &Value) -> [f64; 6] {
    let x = as_nums(v);
    [x[0], x[1], x[2], x[3], x[4], x[5]]
}
pub fn as_arr3(v: &Value) -> [f64; 3] {
    let x = as_nums(v);
    [x[0], x[1], x[2]]
}

// ------------------------------------------------------------------ known findings

pub struct Known {
    pub entries: Vec<(String, String, String, String)>, // property, key, status, text
}

pub fn load_known(path: &str) -> Known {
    let mut entries = Vec::new();
    if let Ok(s) = std::fs::read_to_string(path) {
        let v: Value = serde_json::from_str(&s).expect("known_findings.json must be valid JSON");
        for e in v["findings"].as_array().cloned().unwrap_or_default() {
            entries.push((
                e["property"].as_str().unwrap_or("").to_string(),
                e["key"].as_str().unwrap_or("").to_string(),
                e["status"].as_str().unwrap_or("").to_string(),
                e["text"].as_str().unwrap_or("").to_string(),
            ));
        }
    }
    Known { entries }
}

impl Known {
    /// Returns the text if (property,key) is listed with status "known".
    pub fn lookup(&self, prop: &str, key: &str) -> Option<&str> {
        self.entries
            .iter()
            .find(|(p, k, s, _)| p == prop && k == key && s == "known")
            .map(|e| e.3.as_str())
    }
}

// ------------------------------------------------------------------ finishing a run

fn key_slug(key: &str) -> String {
    let mut h: u64 = 0xcbf29ce484222325;
    for b in key.bytes() {
        h ^= b as u64;
        h = h.wrapping_mul(0x100000001b3);
    }
    let clean: String = key
        .chars()
        .map(|c| if c.is_ascii_alphanumeric() || c == '-' || c == '_' { c } else { '_' })
        .take(60)
        .collect();
    format!("{clean}-{:08x}", (h & 0xffff_ffff) as u32)
}

pub fn verif_dir() -> String {
    std::env::var("VERIF_DIR").unwrap_or_else(|_| "/verif".to_string())
}

/// Writes evidence and replay files, prints verdict lines, returns the process exit code.
pub fn finish(prop: &str, ctx: &Ctx, mut rep: Report, started: Instant) -> i32 {
    let dir = verif_dir();
    let known = load_known(&format!("{dir}/known_findings.json"));
    rep.fails.sort_by(|a, b| (a.order, &a.key).cmp(&(b.order, &b.key)));

    let mut new_keys: Vec<String> = Vec::new();
    let mut known_keys: Vec<String> = Vec::new();
    let mut violation_lines = Vec::new();
    for f in &rep.fails {
        if let Some(text) = known.lookup(prop, &f.key) {
            if !known_keys.contains(&f.key) {
                known_keys.push(f.key.clone());
                println!("KNOWN-FINDING: property={prop} key={} {text}", f.key);
            }
            continue;
        }
        if new_keys.contains(&f.key) {
            continue;
        }
        new_keys.push(f.key.clone());
        let path = format!("{dir}/replays/{prop}-{}.json", key_slug(&f.key));
        let doc = json!({
            "property": prop,
            "key": f.key,
            "case": f.case,
            "detail": f.detail,
        });
        let _ = std::fs::create_dir_all(format!("{dir}/replays"));
        std::fs::write(&path, serde_json::to_string_pretty(&doc).unwrap()).expect("write replay");
        violation_lines.push(format!("VIOLATION property={prop} replay={path}"));
        eprintln!("  violation key={} detail={}", f.key, f.detail);
    }

    if rep.signatures.len() < 2 && rep.machinery_errors.is_empty() {
        rep.machinery_errors.push(format!(
            "void run: only {} distinct outcome signature(s) over {} states",
            rep.signatures.len(),
            rep.states
        ));
    }

    let wall = started.elapsed().as_secs_f64();
    let mut cov = Map::new();
    cov.insert("states".into(), json!(rep.states.max(1)));
    cov.insert("transitions".into(), json!(rep.transitions.max(1)));
    cov.insert("traces_validated_against_impl".into(), json!(rep.traces_validated));
    cov.insert("evaluations".into(), json!(rep.evaluations.max(rep.states)));
    cov.insert("distinct_nontrivial".into(), json!(rep.signatures.len()));
    cov.insert("rule".into(), json!(rep.rule));
    let mut samples = rep.samples.clone();
    if samples.is_empty() {
        samples.push(json!({"note": "no sample recorded"}));
    }
    cov.insert("samples".into(), Value::Array(samples));
    cov.insert("exhaustive".into(), json!(rep.exhaustive && rep.caps_hit.is_empty()));
    cov.insert("skipped_boundary".into(), json!(rep.skipped_boundary));
    cov.insert("skipped_precondition".into(), json!(rep.skipped_precondition));
    cov.insert(
        "outcome_signatures".into(),
        Value::Array(rep.signatures.iter().take(40).map(|s| json!(s)).collect()),
    );
    cov.insert("caps_hit".into(), json!(rep.caps_hit));
    cov.insert("known_finding_keys".into(), json!(known_keys));
    cov.insert("violation_keys".into(), json!(new_keys));
    cov.insert("failing_cases_total".into(), json!(rep.fail_count));
    for (k, v) in &rep.extra {
        cov.insert(k.clone(), v.clone());
    }
    let ev = json!({
        "property_id": prop,
        "tier": if ctx.quick() { "quick" } else { "thorough" },
        "seed": ctx.seed,
        "level": "model_checking",
        "coverage": Value::Object(cov),
        "assumptions": rep.assumptions,
        "wall_s": wall,
        "violations": new_keys.len(),
    });
    let _ = std::fs::create_dir_all(format!("{dir}/evidence"));
    std::fs::write(
        format!("{dir}/evidence/{prop}.json"),
        serde_json::to_string_pretty(&ev).unwrap() + "\n",
    )
    .expect("write evidence");

    println!(
        "{prop} {}: states={} transitions={} signatures={} skipped_boundary={} skipped_precondition={} failing_cases={} known_keys={} new_keys={} wall={:.1}s",
        if ctx.quick() { "quick" } else { "thorough" },
        rep.states,
        rep.transitions,
        rep.signatures.len(),
        rep.skipped_boundary,
        rep.skipped_precondition,
        rep.fail_count,
        known_keys.len(),
        new_keys.len(),
        wall
    );
    for l in &violation_lines {
        println!("{l}");
    }
    if !violation_lines.is_empty() {
        return 1;
    }
    if !rep.machinery_errors.is_empty() {
        for e in &rep.machinery_errors {
            eprintln!("MACHINERY-ERROR property={prop} {e}");
        }
        return 2;
    }
    0
}
