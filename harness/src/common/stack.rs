//! Wrapper stacks: description, construction of the real object, and the reference model.

use super::ev::{as_arr6, as_num, nums};
use super::fkref;
use super::m3::*;
use super::robots::{params_from_json, params_json};
use rs_opw_kinematics::constraints::Constraints;
use rs_opw_kinematics::frame::Frame;
use rs_opw_kinematics::kinematic_traits::{Joints, Kinematics, Pose, Solutions};
use rs_opw_kinematics::kinematics_impl::OPWKinematics;
use rs_opw_kinematics::parallelogram::Parallelogram;
use rs_opw_kinematics::parameters::opw_kinematics::Parameters;
use rs_opw_kinematics::tool::{Base, Tool};
use serde_json::{json, Value};
use std::panic::{catch_unwind, AssertUnwindSafe};
use std::sync::Arc;

#[derive(Clone, Copy, Debug, PartialEq)]
pub enum Wrap {
    Tool(Iso),
    Base(Iso),
    Frame(Iso),
    Para { driven: usize, coupled: usize, scaling: f64 },
}

#[derive(Clone, Copy, Debug, PartialEq)]
pub struct Limits {
    pub from: [f64; 6],
    pub to: [f64; 6],
    pub weight: f64,
}

thread_local! {
    static FORCED_HISTORY: std::cell::Cell<Option<usize>> = const { std::cell::Cell::new(None) };
}

/// Runs `f` with the construction history of every `Limits::build` on this thread fixed to `h` (see `Limits::history`).
pub fn with_forced_history<T>(h: usize, f: impl FnOnce() -> T) -> T {
    FORCED_HISTORY.with(|c| c.set(Some(h)));
    let out = f();
    FORCED_HISTORY.with(|c| c.set(None));
    out
}

impl Limits {
    /// How the constraints object under test comes to hold these limits: 0 = Constraints::new, 1 = update_range over an
    /// earlier range with off-zero centres, 2 = update_range over an earlier unconstrained (from == to) range, 3 = from_degrees, 4 = update_range narrowing a wider range about the same mid-points. The
    /// choice is a function of the data (so replays agree) and must not matter: reference values are always taken
    /// from a fresh Constraints::new.
    pub fn history(&self) -> usize {
        if let Some(forced) = FORCED_HISTORY.with(|c| c.get()) {
            return forced % 5;
        }
        let h = self.from[0].to_bits() ^ self.to[0].to_bits().rotate_left(17) ^ self.from[5].to_bits().rotate_left(31) ^ self.weight.to_bits().rotate_left(7);
        ((h ^ (h >> 29) ^ (h >> 47)) % 5) as usize
    }
    pub fn build(&self) -> Constraints {
        match self.history() {
            0 => Constraints::new(self.from, self.to, self.weight),
            1 => {
                let mut c = Constraints::new([2.0; 6], [4.0; 6], self.weight);
                c.update_range(self.from, self.to);
                c
            }
            2 => {
                let mut c = Constraints::new([-0.3; 6], [-0.3; 6], self.weight);
                c.update_range(self.from, self.to);
                c
            }
            // an earlier, wider range about the same mid-points, narrowed by update_range (centres unchanged)
            4 => {
                let wider_from: [f64; 6] = std::array::from_fn(|i| self.from[i] - 0.75);
                let wider_to: [f64; 6] = std::array::from_fn(|i| self.to[i] + 0.75);
                let mut c = Constraints::new(wider_from, wider_to, self.weight);
                c.update_range(self.from, self.to);
                c
            }
            // the degrees constructor (limits go through degrees and back: equal up to an ulp)
            _ => Constraints::from_degrees(std::array::from_fn(|i| self.from[i].to_degrees()..=self.to[i].to_degrees()), self.weight),
        }
    }
}

#[derive(Clone, Debug)]
pub struct StackDesc {
    pub params: Parameters,
    pub limits: Option<Limits>,
    /// innermost wrapper first
    pub wraps: Vec<Wrap>,
}

impl StackDesc {
    pub fn bare(params: Parameters) -> StackDesc {
        StackDesc { params, limits: None, wraps: vec![] }
    }
    pub fn with(mut self, w: Wrap) -> StackDesc {
        self.wraps.push(w);
        self
    }
    pub fn limited(mut self, l: Limits) -> StackDesc {
        self.limits = Some(l);
        self
    }

    pub fn build(&self) -> Arc<dyn Kinematics> {
        let core: Arc<dyn Kinematics> = match &self.limits {
            None => Arc::new(OPWKinematics::new(self.params)),
            Some(l) => Arc::new(OPWKinematics::new_with_constraints(
                self.params,
                l.build(),
            )),
        };
        let mut cur = core;
        for w in &self.wraps {
            cur = match *w {
                Wrap::Tool(t) => Arc::new(Tool { robot: cur, tool: to_na(&t) }),
                Wrap::Base(b) => Arc::new(Base { robot: cur, base: to_na(&b) }),
                Wrap::Frame(f) => Arc::new(Frame { robot: cur, frame: to_na(&f) }),
                Wrap::Para { driven, coupled, scaling } => {
                    Arc::new(Parallelogram { robot: cur, scaling, driven, coupled })
                }
            };
        }
        cur
    }

    /// Joint vector seen by the innermost robot for an outer joint vector.
    pub fn inner_joints(&self, q: &Joints) -> Joints {
        let mut j = *q;
        for w in self.wraps.iter().rev() {
            if let Wrap::Para { driven, coupled, scaling } = *w {
                j[coupled] -= scaling * j[driven];
            }
        }
        j
    }

    /// Reference forward pose of the whole stack.
    pub fn model_fk(&self, q: &Joints) -> Iso {
        let j = self.inner_joints(q);
        let mut x = fkref::fk(&self.params, &j);
        for w in &self.wraps {
            match *w {
                Wrap::Tool(t) | Wrap::Frame(t) => x = x.mul(&t),
                Wrap::Base(b) => x = b.mul(&x),
                Wrap::Para { .. } => {}
            }
        }
        x
    }

    /// Reference link poses of the whole stack (Tool leaves them, Base pre-multiplies all,
    /// Frame post-multiplies the last one only).
    pub fn model_links(&self, q: &Joints) -> [Iso; 6] {
        let j = self.inner_joints(q);
        let mut l = fkref::links(&self.params, &j);
        for w in &self.wraps {
            match *w {
                Wrap::Tool(_) => {}
                Wrap::Frame(f) => l[5] = l[5].mul(&f),
                Wrap::Base(b) => {
                    for x in l.iter_mut() {
                        *x = b.mul(x);
                    }
                }
                Wrap::Para { .. } => {}
            }
        }
        l
    }

    pub fn to_json(&self) -> Value {
        json!({
            "params": params_json(&self.params),
            "limits": self.limits.map(|l| json!({"from": nums(&l.from), "to": nums(&l.to), "weight": l.weight})),
            "wraps": self.wraps.iter().map(|w| match w {
                Wrap::Tool(t) => json!({"kind":"tool","iso": iso_json(t)}),
                Wrap::Base(t) => json!({"kind":"base","iso": iso_json(t)}),
                Wrap::Frame(t) => json!({"kind":"frame","iso": iso_json(t)}),
                Wrap::Para{driven,coupled,scaling} => json!({"kind":"para","driven":driven,"coupled":coupled,"scaling":scaling}),
            }).collect::<Vec<_>>(),
        })
    }

    pub fn from_json(v: &Value) -> StackDesc {
        let params = params_from_json(&v["params"]);
        let limits = if v["limits"].is_null() {
            None
        } else {
            Some(Limits {
                from: as_arr6(&v["limits"]["from"]),
                to: as_arr6(&v["limits"]["to"]),
                weight: as_num(&v["limits"]["weight"]),
            })
        };
        let wraps = v["wraps"]
            .as_array()
            .unwrap()
            .iter()
            .map(|w| match w["kind"].as_str().unwrap() {
                "tool" => Wrap::Tool(iso_from_json(&w["iso"])),
                "base" => Wrap::Base(iso_from_json(&w["iso"])),
                "frame" => Wrap::Frame(iso_from_json(&w["iso"])),
                "para" => Wrap::Para {
                    driven: w["driven"].as_u64().unwrap() as usize,
                    coupled: w["coupled"].as_u64().unwrap() as usize,
                    scaling: as_num(&w["scaling"]),
                },
                k => panic!("unknown wrap {k}"),
            })
            .collect();
        StackDesc { params, limits, wraps }
    }

    pub fn shape(&self) -> String {
        let mut s = String::from("opw");
        for w in &self.wraps {
            s.push_str(match w {
                Wrap::Tool(_) => ">tool",
                Wrap::Base(_) => ">base",
                Wrap::Frame(_) => ">frame",
                Wrap::Para { .. } => ">para",
            });
        }
        s
    }
}

pub fn iso_json(i: &Iso) -> Value {
    json!({"r": [nums(&i.r[0]), nums(&i.r[1]), nums(&i.r[2])], "t": nums(&i.t)})
}
pub fn iso_from_json(v: &Value) -> Iso {
    let row = |k: usize| {
        let x = super::ev::as_nums(&v["r"][k]);
        [x[0], x[1], x[2]]
    };
    Iso { r: [row(0), row(1), row(2)], t: super::ev::as_arr3(&v["t"]) }
}

// ------------------------------------------------------------------ entry points

#[derive(Clone, Copy, Debug, PartialEq, Eq)]
pub enum Entry {
    Inverse,
    Continuing,
    FiveDof,
    Continuing5,
}

pub const ENTRIES: [Entry; 4] = [Entry::Inverse, Entry::Continuing, Entry::FiveDof, Entry::Continuing5];

impl Entry {
    pub fn name(&self) -> &'static str {
        match self {
            Entry::Inverse => "inverse",
            Entry::Continuing => "inverse_continuing",
            Entry::FiveDof => "inverse_5dof",
            Entry::Continuing5 => "inverse_continuing_5dof",
        }
    }
    pub fn from_name(s: &str) -> Entry {
        *ENTRIES.iter().find(|e| e.name() == s).expect("entry name")
    }
    pub fn uses_prev(&self) -> bool {
        matches!(self, Entry::Continuing | Entry::Continuing5)
    }
}

/// Calls one inverse entry point; a panic is returned as Err(message).
fn call_once(k: &dyn Kinematics, e: Entry, pose: &Pose, prev: &Joints, j6: f64) -> Result<Solutions, String> {
    let r = catch_unwind(AssertUnwindSafe(|| match e {
        Entry::Inverse => k.inverse(pose),
        Entry::Continuing => k.inverse_continuing(pose, prev),
        Entry::FiveDof => k.inverse_5dof(pose, j6),
        Entry::Continuing5 => k.inverse_continuing_5dof(pose, prev),
    }));
    r.map_err(|p| panic_message(&p))
}

thread_local! {
    /// A different, constrained robot living on the same thread; it is asked the same question just before every call
    /// under test ("start from non-initial states"): nothing an instance remembers may leak into another one.
    static DECOY: OPWKinematics = OPWKinematics::new_with_constraints(
        crate::common::robots::make(0.07, 0.03, -0.02, [0.33, 0.41, 0.39, 0.06], [-1, 1, 1, -1, 1, -1], [0.1, -0.2, 0.3, 0.0, 0.5, -0.4], 6),
        Constraints::new([-2.0, -1.5, -3.0, 0.5, -2.0, -1.0], [2.5, 1.9, 3.0, 6.0, 2.0, 4.0], 0.3),
    );
}

/// One inverse-kinematics query on the stack under test. A quarter of the queries are (1) preceded by the same query on an unrelated
/// robot of the same thread and (2) issued twice: the two answers must be bit-identical, otherwise the entry point is
/// not a function of its arguments and the difference is reported in place of a panic message.
pub fn call(k: &dyn Kinematics, e: Entry, pose: &Pose, prev: &Joints, j6: f64) -> Result<Solutions, String> {
    // a quarter of the queries, chosen by their own argument bits (so the choice does not depend on threads or order)
    let h = pose.translation.vector.x.to_bits() ^ pose.translation.vector.z.to_bits().rotate_left(21) ^ prev[3].to_bits().rotate_left(42) ^ j6.to_bits().rotate_left(9) ^ (e as u64);
    if (h ^ (h >> 31) ^ (h >> 52)) % 4 != 0 {
        return call_once(k, e, pose, prev, j6);
    }
    DECOY.with(|d| {
        let _ = call_once(d, e, pose, prev, j6);
    });
    let first = call_once(k, e, pose, prev, j6)?;
    DECOY.with(|d| {
        let _ = call_once(d, e, pose, &first.first().copied().unwrap_or(*prev), j6);
    });
    let second = call_once(k, e, pose, prev, j6)?;
    let same = first.len() == second.len() && first.iter().zip(second.iter()).all(|(a, b)| (0..6).all(|i| a[i].to_bits() == b[i].to_bits()));
    if !same {
        return Err(format!("not a function of its arguments: two identical {} calls (an unrelated robot queried in between) returned {first:?} and then {second:?}", e.name()));
    }
    Ok(first)
}

pub fn panic_message(p: &Box<dyn std::any::Any + Send>) -> String {
    if let Some(s) = p.downcast_ref::<&str>() {
        s.to_string()
    } else if let Some(s) = p.downcast_ref::<String>() {
        s.clone()
    } else {
        "panic".to_string()
    }
}
