//! Deterministic parallel enumeration of an index range: work is split into contiguous chunks,
//! each chunk fills its own Report, reports are merged in index order.

use super::ev::Report;
use rayon::prelude::*;

pub fn run<F>(n: u64, f: F) -> Report
where
    F: Fn(u64, &mut Report) + Sync,
{
    let threads = rayon::current_num_threads().max(1) as u64;
    let chunks = (threads * 8).min(n.max(1));
    let per = (n + chunks - 1) / chunks.max(1);
    let parts: Vec<Report> = (0..chunks)
        .into_par_iter()
        .map(|c| {
            let mut r = Report::new();
            let lo = c * per;
            let hi = ((c + 1) * per).min(n);
            for i in lo..hi {
                f(i, &mut r);
            }
            r
        })
        .collect();
    let mut total = Report::new();
    for p in parts {
        total.merge(p);
    }
    total
}

/// Mixed-radix decoding of a flat index into per-axis indices (axis 0 varies slowest).
pub fn decode(mut idx: u64, sizes: &[usize], out: &mut [usize]) {
    for a in (0..sizes.len()).rev() {
        out[a] = (idx % sizes[a] as u64) as usize;
        idx /= sizes[a] as u64;
    }
}

pub fn product(sizes: &[usize]) -> u64 {
    sizes.iter().map(|&s| s as u64).product()
}
