pub mod arc;
pub mod ev;
pub mod fkref;
pub mod m3;
pub mod par;
pub mod robots;
pub mod stack;
