//! Magnitude ladders for probing thresholds.
//!
//! A product lattice of "typical" values never lands inside a narrow numeric window (a guard that fires within
//! 1e-5 of a singularity, a parameter treated as zero below 1 mm, ...). The sweeps that use this module put a
//! geometric ladder of magnitudes on the one axis that approaches a special value, and add to it every small
//! numeric literal found in the library source under test together with its neighbours (x0.5 .. x2), its square
//! and its square root: a threshold written into the code is then probed on both sides whatever its unit.

use std::collections::BTreeSet;

pub fn repo_dir() -> String {
    std::env::var("VERIF_REPO").unwrap_or_else(|_| "/repo".to_string())
}

/// 13 mantissas per decade (ratio about 1.2) from 1e-12 to 1e-2.
pub fn geometric() -> Vec<f64> {
    let m = [1.0, 1.2, 1.45, 1.75, 2.1, 2.5, 3.0, 3.6, 4.3, 5.2, 6.2, 7.5, 8.9];
    let mut v = Vec::new();
    for e in -12..=-3 {
        for x in m {
            v.push(x * 10f64.powi(e));
        }
    }
    v
}

/// Float literals of a Rust source text (comments stripped), as written: `1E-6`, `0.01`, `5e-4`, `2.5`.
pub fn float_literals(src: &str) -> Vec<f64> {
    let mut out = Vec::new();
    for line in src.lines() {
        let code = line.split("//").next().unwrap_or("");
        let b = code.as_bytes();
        let mut i = 0;
        while i < b.len() {
            let starts = b[i].is_ascii_digit() && (i == 0 || !(b[i - 1].is_ascii_alphanumeric() || b[i - 1] == b'_' || b[i - 1] == b'.'));
            if !starts {
                i += 1;
                continue;
            }
            let s = i;
            let mut seen_dot = false;
            let mut seen_exp = false;
            while i < b.len() {
                let c = b[i];
                if c.is_ascii_digit() || c == b'_' {
                    i += 1;
                } else if c == b'.' && !seen_dot && !seen_exp && i + 1 < b.len() && b[i + 1].is_ascii_digit() {
                    seen_dot = true;
                    i += 1;
                } else if c == b'.' && !seen_dot && !seen_exp && (i + 1 == b.len() || !(b[i + 1].is_ascii_alphabetic() || b[i + 1] == b'.')) {
                    seen_dot = true; // `1.` form
                    i += 1;
                } else if (c == b'e' || c == b'E') && !seen_exp && i + 1 < b.len() && (b[i + 1].is_ascii_digit() || ((b[i + 1] == b'-' || b[i + 1] == b'+') && i + 2 < b.len() && b[i + 2].is_ascii_digit())) {
                    seen_exp = true;
                    i += 2;
                } else {
                    break;
                }
            }
            if seen_dot || seen_exp {
                let t: String = code[s..i].chars().filter(|c| *c != '_').collect();
                if let Ok(x) = t.parse::<f64>() {
                    out.push(x);
                }
            }
        }
    }
    out
}

/// Small magnitudes (<= 0.05) derived from the literals of the given source files (relative to the repo's src/),
/// and from products / quotients of two literals on one line being evaluated is not attempted: neighbours,
/// squares and roots of each literal cover the usual `x * x < EPS` and `EPS * PI / 180` forms within a factor 2.
pub fn from_sources(files: &[&str]) -> Vec<f64> {
    let mut set: BTreeSet<u64> = BTreeSet::new();
    let mut add = |x: f64| {
        if x.is_finite() && x > 1e-13 && x <= 0.05 {
            set.insert(x.to_bits());
        }
    };
    for f in files {
        let path = format!("{}/src/{}", repo_dir(), f);
        let Ok(src) = std::fs::read_to_string(&path) else { continue };
        for l in float_literals(&src) {
            if !(l > 0.0) {
                continue;
            }
            for base in [l, l * l, l.sqrt(), l.to_radians(), l * 1e-3, (2.0 * l).sqrt(), l / 2.0_f64.sqrt()] {
                for k in [0.5, 0.75, 0.9, 0.97, 1.03, 1.1, 1.2, 1.41, 1.7, 2.0] {
                    add(base * k);
                }
            }
        }
    }
    set.into_iter().map(f64::from_bits).collect()
}

/// The ladder used by the threshold sweeps: geometric + source-derived, ascending, deduplicated.
pub fn ladder(files: &[&str]) -> Vec<f64> {
    let mut set: BTreeSet<u64> = geometric().into_iter().map(f64::to_bits).collect();
    for x in from_sources(files) {
        set.insert(x.to_bits());
    }
    set.into_iter().map(f64::from_bits).collect()
}
