//! ARC_ref: arc membership by definition (C07 statement).

use std::f64::consts::PI;
const TWO_PI: f64 = 2.0 * PI;

#[derive(Clone, Copy, Debug, PartialEq)]
pub enum ArcVerdict {
    Inside,
    Outside,
    /// within `eps` of an arc end, or the statement's ambiguous zero-length/full-turn case
    Boundary,
}

/// Real-valued version: arc from `from` in positive direction to `to`.
/// from == to => unconstrained. from < to and to-from >= 2pi => everything.
/// from > to => span = (to-from) mod 2pi (zero => ambiguous => Boundary).
pub fn arc_member(from: f64, to: f64, angle: f64, eps: f64) -> ArcVerdict {
    if from == to {
        return ArcVerdict::Inside;
    }
    let span = if from < to {
        if to - from >= TWO_PI - eps {
            if to - from >= TWO_PI {
                return ArcVerdict::Inside;
            }
            return ArcVerdict::Boundary;
        }
        to - from
    } else {
        let s = (to - from).rem_euclid(TWO_PI);
        if s < eps || TWO_PI - s < eps {
            return ArcVerdict::Boundary;
        }
        s
    };
    let d = (angle - from).rem_euclid(TWO_PI);
    if d < eps || TWO_PI - d < eps || (d - span).abs() < eps {
        return ArcVerdict::Boundary;
    }
    if d < span {
        ArcVerdict::Inside
    } else {
        ArcVerdict::Outside
    }
}

/// Exact integer version on a lattice with `turn` steps per full turn (e.g. 72 for 5 degrees).
/// Returns None for the ambiguous reversed zero-length/full-turn case.
pub fn arc_member_int(from: i64, to: i64, angle: i64, turn: i64) -> Option<bool> {
    if from == to {
        return Some(true);
    }
    let span = if from < to {
        if to - from >= turn {
            return Some(true);
        }
        to - from
    } else {
        let s = (to - from).rem_euclid(turn);
        if s == 0 {
            return None;
        }
        s
    };
    Some((angle - from).rem_euclid(turn) <= span)
}

/// Vector version over six joints; Boundary if any joint is Boundary and none is Outside.
pub fn arc_member6(from: &[f64; 6], to: &[f64; 6], q: &[f64; 6], eps: f64) -> ArcVerdict {
    let mut boundary = false;
    for i in 0..6 {
        match arc_member(from[i], to[i], q[i], eps) {
            ArcVerdict::Outside => return ArcVerdict::Outside,
            ArcVerdict::Boundary => boundary = true,
            ArcVerdict::Inside => {}
        }
    }
    if boundary {
        ArcVerdict::Boundary
    } else {
        ArcVerdict::Inside
    }
}
