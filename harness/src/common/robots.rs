//! The robots axis R: geometry x sign pattern x offsets x dof, simplest first.

use rs_opw_kinematics::parameters::opw_kinematics::Parameters;
use serde_json::{json, Value};
use std::f64::consts::PI;

pub const A1S: [f64; 3] = [0.0, 0.15, -0.1];
pub const A2S: [f64; 3] = [0.0, -0.135, 0.1];
pub const BS: [f64; 3] = [0.0, 0.1, -0.05];
pub const CS: [[f64; 4]; 3] = [
    [0.615, 0.705, 0.755, 0.085],
    [0.1, 0.2384, 0.17, 0.1208],
    [0.55, 0.825, 0.625, 0.0],
];

pub fn sign_patterns(all: bool) -> Vec<[i8; 6]> {
    if all {
        (0..64u32)
            .map(|m| {
                let mut s = [1i8; 6];
                for i in 0..6 {
                    if m & (1 << i) != 0 {
                        s[i] = -1;
                    }
                }
                s
            })
            .collect()
    } else {
        vec![
            [1, 1, 1, 1, 1, 1],
            [-1, -1, -1, -1, -1, -1],
            [1, -1, 1, -1, 1, -1],
            [-1, 1, 1, 1, 1, 1],
            [1, 1, 1, 1, -1, 1],
            [1, 1, 1, -1, 1, 1],
        ]
    }
}

pub fn offset_sets() -> Vec<[f64; 6]> {
    vec![
        [0.0; 6],
        [0.0, 0.0, -PI / 2.0, 0.0, 0.0, 0.0],
        [0.3, -0.7, -PI / 2.0, 1.1, 0.2, PI],
        // offsets of more than half a turn (model angle + offset can exceed 3*pi before normalisation)
        [-PI, 0.0, 0.4, 3.5, -0.3, -4.0],
    ]
}

pub fn make(a1: f64, a2: f64, b: f64, c: [f64; 4], signs: [i8; 6], offsets: [f64; 6], dof: i8) -> Parameters {
    Parameters {
        a1,
        a2,
        b,
        c1: c[0],
        c2: c[1],
        c3: c[2],
        c4: c[3],
        offsets,
        sign_corrections: signs,
        dof,
    }
}

pub fn presets() -> Vec<(&'static str, Parameters)> {
    vec![
        ("irb2400_10", Parameters::irb2400_10()),
        ("kuka_kr6_r700_sixx", Parameters::kuka_kr6_r700_sixx()),
        ("staubli_tx2_160l", Parameters::staubli_tx2_160l()),
        ("igus_rebel", Parameters::igus_rebel()),
        ("fanuc_r2000ib_200r", Parameters::fanuc_r2000ib_200r()),
        ("staubli_tx40", Parameters::staubli_tx40()),
    ]
}

/// Geometry lattice (27 * 3 = 81 geometries in full; a covering subset otherwise).
pub fn geometries(full: bool) -> Vec<(f64, f64, f64, [f64; 4])> {
    let mut v = Vec::new();
    if full {
        for &c in &CS {
            for &a1 in &A1S {
                for &a2 in &A2S {
                    for &b in &BS {
                        v.push((a1, a2, b, c));
                    }
                }
            }
        }
    } else {
        // every value of every axis appears, b != 0 with both signs of a1, a2; c4 = 0 once
        v.push((0.0, 0.0, 0.0, CS[0]));
        v.push((0.15, -0.135, 0.0, CS[0]));
        v.push((-0.1, 0.1, 0.1, CS[1]));
        v.push((0.15, 0.1, -0.05, CS[0]));
        v.push((0.0, -0.135, 0.1, CS[2]));
        v.push((0.15, 0.0, 0.0, CS[2]));
    }
    // negative link lengths (mirrored forearm / flange): a1 < 0 and b < 0 with it
    v.push((-0.1, 0.08, -0.05, [0.5, 0.6, -0.55, -0.08]));
    v
}

/// A list of robots for IK-type properties. `level` 0 = quick, 1 = thorough.
pub fn robot_axis(level: u8, dofs: &[i8]) -> Vec<Parameters> {
    let mut out = Vec::new();
    let geos = geometries(level >= 1);
    let signs = sign_patterns(level >= 1);
    let offs = offset_sets();
    for &dof in dofs {
        if level == 0 {
            // pairwise-style covering: each geometry with rotating sign/offset choice + full product on first geometry
            for (gi, g) in geos.iter().enumerate() {
                for (si, s) in signs.iter().enumerate() {
                    let o = offs[(gi + si) % offs.len()];
                    out.push(make(g.0, g.1, g.2, g.3, *s, o, dof));
                }
            }
            for o in &offs {
                out.push(make(geos[1].0, geos[1].1, geos[1].2, geos[1].3, signs[0], *o, dof));
            }
        } else {
            for (gi, g) in geos.iter().enumerate() {
                for (si, s) in signs.iter().enumerate() {
                    // all 64 signs on 9 geometries, 5 signs elsewhere; offsets rotate
                    if si >= 6 && gi % 9 != 0 {
                        continue;
                    }
                    for (oi, o) in offs.iter().enumerate() {
                        if si >= 6 && oi != (gi + si) % 4 {
                            continue;
                        }
                        out.push(make(g.0, g.1, g.2, g.3, *s, *o, dof));
                    }
                }
            }
        }
        for (_, p) in presets() {
            let mut p = p;
            p.dof = dof;
            out.push(p);
        }
    }
    out
}

pub fn params_json(p: &Parameters) -> Value {
    json!({
        "a1": p.a1, "a2": p.a2, "b": p.b, "c1": p.c1, "c2": p.c2, "c3": p.c3, "c4": p.c4,
        "offsets": p.offsets.to_vec(),
        "signs": p.sign_corrections.to_vec(),
        "dof": p.dof,
    })
}

pub fn params_from_json(v: &Value) -> Parameters {
    let f = |k: &str| v[k].as_f64().unwrap();
    let o: Vec<f64> = v["offsets"].as_array().unwrap().iter().map(|x| x.as_f64().unwrap()).collect();
    let s: Vec<i8> = v["signs"].as_array().unwrap().iter().map(|x| x.as_i64().unwrap() as i8).collect();
    Parameters {
        a1: f("a1"),
        a2: f("a2"),
        b: f("b"),
        c1: f("c1"),
        c2: f("c2"),
        c3: f("c3"),
        c4: f("c4"),
        offsets: [o[0], o[1], o[2], o[3], o[4], o[5]],
        sign_corrections: [s[0], s[1], s[2], s[3], s[4], s[5]],
        dof: v["dof"].as_i64().unwrap() as i8,
    }
}

/// Wrap an angle into (-pi, pi].
pub fn wrap_pi(a: f64) -> f64 {
    let mut x = a.rem_euclid(2.0 * PI);
    if x > PI {
        x -= 2.0 * PI;
    }
    x
}

/// Circular distance between two angles.
pub fn circ_dist(a: f64, b: f64) -> f64 {
    wrap_pi(a - b).abs()
}

pub fn joints_close_mod2pi(a: &[f64; 6], b: &[f64; 6], tol: f64) -> bool {
    (0..6).all(|i| circ_dist(a[i], b[i]) <= tol)
}

/// Robots for the threshold sweeps: a plain 6-DOF arm, 5-DOF arms (with and without flange length), a
/// sign/offset variant with a J5 offset.
pub fn sweep_robots() -> Vec<Parameters> {
    let c = [0.5, 0.6, 0.55, 0.08];
    vec![
        make(0.15, -0.1, 0.0, c, [1; 6], [0.0; 6], 6),
        make(0.15, -0.1, 0.0, c, [1; 6], [0.0; 6], 5),
        make(0.15, -0.1, 0.05, [0.5, 0.6, 0.55, 0.0], [1; 6], [0.0; 6], 5),
        make(0.0, 0.0, 0.0, c, [1, -1, 1, -1, -1, 1], [0.3, 0.0, -std::f64::consts::PI / 2.0, 0.2, 0.4, -0.6], 5),
        make(-0.1, 0.1, 0.1, c, [-1, 1, -1, 1, -1, -1], [0.0, 0.2, 0.0, 0.0, -1.1, 0.0], 6),
    ]
}

/// One length parameter at a time set to +-v for every v of the ladder, on an otherwise ordinary geometry:
/// parameters that are almost, but not exactly, zero.
pub fn tiny_param_robots(ladder: &[f64], dofs: &[i8]) -> Vec<Parameters> {
    let mut out = Vec::new();
    for &dof in dofs {
        for which in 0..4 {
            for &v in ladder {
                for sgn in [1.0, -1.0] {
                    let x = sgn * v;
                    let (mut a1, mut a2, mut b, mut c4) = (0.15, -0.1, 0.0, 0.08);
                    match which {
                        0 => a1 = x,
                        1 => a2 = x,
                        2 => b = x,
                        _ => c4 = x,
                    }
                    out.push(make(a1, a2, b, [0.5, 0.6, 0.55, c4], [1, 1, -1, 1, 1, 1], [0.0, 0.0, -std::f64::consts::PI / 2.0, 0.0, 0.0, 0.0], dof));
                }
            }
        }
    }
    out
}
