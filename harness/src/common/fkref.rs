//! FK_ref: the OPW link chain as a product of elementary transforms (reference model).
//!
//! T(0,0,c1) Rz(q1) | T(a1,b,0) Ry(q2) | T(0,0,c2) Ry(q3) | T(a2,0,0) Rz(q4) | T(0,0,c3) Ry(q5) | T(0,0,c4) Rz(q6)
//! with q_i = sign_i * j_i - offset_i.

use super::m3::*;
use rs_opw_kinematics::parameters::opw_kinematics::Parameters;

pub type Joints = [f64; 6];

pub fn internal_angles(p: &Parameters, j: &Joints) -> [f64; 6] {
    let mut q = [0.0; 6];
    for i in 0..6 {
        q[i] = j[i] * (p.sign_corrections[i] as f64) - p.offsets[i];
    }
    q
}

/// The six link frames; the last one is the flange (TCP of the bare robot).
pub fn links(p: &Parameters, j: &Joints) -> [Iso; 6] {
    let q = internal_angles(p, j);
    let l1 = Iso::new(rotz(q[0]), [0.0, 0.0, p.c1]);
    let l2 = l1.mul(&Iso::new(roty(q[1]), [p.a1, p.b, 0.0]));
    let l3 = l2.mul(&Iso::new(roty(q[2]), [0.0, 0.0, p.c2]));
    let l4 = l3.mul(&Iso::new(rotz(q[3]), [p.a2, 0.0, 0.0]));
    let l5 = l4.mul(&Iso::new(roty(q[4]), [0.0, 0.0, p.c3]));
    let l6 = l5.mul(&Iso::new(rotz(q[5]), [0.0, 0.0, p.c4]));
    [l1, l2, l3, l4, l5, l6]
}

pub fn fk(p: &Parameters, j: &Joints) -> Iso {
    links(p, j)[5]
}

/// Joint axes (unit, world frame, direction of positive *user* joint motion) and a point on each axis.
pub fn axes(p: &Parameters, j: &Joints) -> [(V3, V3); 6] {
    let l = links(p, j);
    // local rotation axis of each link frame's own joint: z,y,y,z,y,z
    let local = [2usize, 1, 1, 2, 1, 2];
    let mut out = [([0.0; 3], [0.0; 3]); 6];
    for i in 0..6 {
        let a = col(&l[i].r, local[i]);
        out[i] = (scale(a, p.sign_corrections[i] as f64), l[i].t);
    }
    out
}

/// Geometric Jacobian (6x6, rows vx,vy,vz,wx,wy,wz; column i for joint i) of `tcp`,
/// where tcp is the world position of the point whose velocity is described.
pub fn geometric_jacobian(p: &Parameters, j: &Joints, pre: &Iso, tcp_local: &Iso) -> [[f64; 6]; 6] {
    let ax = axes(p, j);
    let flange = fk(p, j);
    let tcp = pre.mul(&flange).mul(tcp_local).t;
    let mut m = [[0.0; 6]; 6];
    for i in 0..6 {
        let z = mvec(&pre.r, ax[i].0);
        let o = pre.apply(ax[i].1);
        let lin = cross(z, sub(tcp, o));
        for r in 0..3 {
            m[r][i] = lin[r];
            m[r + 3][i] = z[r];
        }
    }
    m
}

/// Wrist centre (origin of link 5 == intersection of the last three axes).
pub fn wrist_centre(p: &Parameters, j: &Joints) -> V3 {
    links(p, j)[4].t
}

/// Angle between the joint-4 axis and the joint-6 axis, folded into [0, pi/2]:
/// 0 means collinear (either orientation).
pub fn wrist_axis_angle(p: &Parameters, j: &Joints) -> f64 {
    let l = links(p, j);
    let z4 = col(&l[3].r, 2);
    let z6 = col(&l[5].r, 2);
    let a = dir_angle(z4, z6);
    a.min(std::f64::consts::PI - a)
}

/// Independent arm inverse (positions only): all (q1,q2,q3) internal angle triples that put the
/// wrist centre at `c`. Used as an oracle helper (C05 precondition), derived from plain geometry:
/// in the J1-rotated plane the wrist centre sits at x = a1 + c2 sin q2 + k sin(q2+q3+psi),
/// y = b, z = c1 + c2 cos q2 + k cos(q2+q3+psi).
pub fn arm_ik(p: &Parameters, c: V3) -> Vec<[f64; 3]> {
    let mut out = Vec::new();
    let rho2 = c[0] * c[0] + c[1] * c[1] - p.b * p.b;
    if !(rho2 >= 0.0) {
        return out;
    }
    let rho = rho2.sqrt();
    let k = (p.a2 * p.a2 + p.c3 * p.c3).sqrt();
    let psi = p.a2.atan2(p.c3);
    // Two shoulder configurations: in-plane x coordinate is +rho or -rho.
    for &sx in &[1.0, -1.0] {
        let x = sx * rho; // in-plane coordinate (before subtracting a1)
        // q1 such that Rz(q1) * (x, b, *) = (c0, c1, *)
        let q1 = (c[1] * x - c[0] * p.b).atan2(c[0] * x + c[1] * p.b);
        let px = x - p.a1;
        let pz = c[2] - p.c1;
        let d2 = px * px + pz * pz;
        let cos_e = (d2 - p.c2 * p.c2 - k * k) / (2.0 * p.c2 * k);
        if !(cos_e.abs() <= 1.0) {
            continue;
        }
        for &se in &[1.0, -1.0] {
            let e = se * cos_e.acos(); // e = q3 + psi
            // (px,pz) = c2 (sin q2, cos q2) + k (sin(q2+e), cos(q2+e))
            let ax = p.c2 + k * e.cos();
            let ay = k * e.sin();
            // px = ax sin q2 + ay cos q2 ; pz = ax cos q2 - ay sin q2
            let q2 = (px * ax - pz * ay).atan2(pz * ax + px * ay);
            out.push([q1, q2, e - psi]);
        }
    }
    out
}
