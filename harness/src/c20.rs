//! C20 — URDF extraction recovers parameters, signs and limits of any OPW-layout robot.

use crate::common::arc::*;
use crate::common::ev::*;
use crate::common::par;
use crate::common::stack::panic_message;
use rs_opw_kinematics::kinematic_traits::Kinematics;
use rs_opw_kinematics::urdf::{from_urdf, URDFParameters};
use serde_json::{json, Value};
use std::panic::{catch_unwind, AssertUnwindSafe};

#[derive(Clone, Copy, Debug)]
pub struct Rec {
    a1: f64,
    a2: f64,
    b: f64,
    c1: f64,
    c2: f64,
    c3: f64,
    c4: f64,
}

fn records() -> Vec<Rec> {
    vec![
        Rec { a1: 0.15, a2: -0.2, b: 0.0, c1: 0.45, c2: 0.6, c3: 0.64, c4: 0.1 },
        Rec { a1: 0.025, a2: -0.035, b: 0.0, c1: 0.4, c2: 0.315, c3: 0.365, c4: 0.08 },
        Rec { a1: 0.15, a2: 0.0, b: 0.0, c1: 0.55, c2: 0.825, c3: 0.625, c4: 0.11 },
        Rec { a1: 0.0, a2: 0.0, b: 0.035, c1: 0.32, c2: 0.225, c3: 0.225, c4: 0.065 },
        Rec { a1: -0.1, a2: 0.1, b: -0.05, c1: 1.0, c2: 2.0, c3: 0.17, c4: 0.1208 },
        Rec { a1: 0.72, a2: -0.225, b: 0.1, c1: 0.6, c2: 1.075, c3: 1.28, c4: 0.0 },
        // exact relations between parameters that share a joint origin: b == c2 and c3 == -a2; b == -c2 and c3 == a2; all equal
        Rec { a1: 0.1, a2: -0.25, b: 0.3, c1: 0.4, c2: 0.3, c3: 0.25, c4: 0.09 },
        Rec { a1: 0.1, a2: 0.25, b: -0.3, c1: 0.4, c2: 0.3, c3: 0.25, c4: 0.09 },
        Rec { a1: 0.2, a2: -0.2, b: 0.2, c1: 0.2, c2: 0.2, c3: 0.2, c4: 0.2 },
    ]
}

#[derive(Clone, Copy, Debug)]
pub struct Case {
    rec: usize,
    c2_on_x: bool,
    c3_on_j4: bool,
    tail_on_x: bool, // c3 (when on joint 5) and c4 along x instead of z
    sign_mask: u32,
    axis_style: usize,  // 0 "0 0 1", 1 "0 0 1.0"/"-1.0", 2 axis element omitted where the sign is +
    limit_style: usize, // 0 radians, 1 ${radians(d)}, 2 integers, 3 negative decimals, 4 no <limit>, 5 unreadable limit, 6-8 mixed per joint
    order: usize,       // permutation index 0..720
    nesting: usize,     // 0 flat, 1 xacro:macro, 2 two levels
    naming: usize,      // see NAMES
    copies: usize,      // 0 single, 1 identical second copy, 2 conflicting copy (origin), 3 conflicting copy (limits only)
}

const NAMINGS: [&str; 12] = [
    "jointN", "joint_N", "${prefix}joint_aN", "left_joint_N", "JOINT_N", "${prefix}JOINT_AN", "explicit-one-based", "explicit-zero-based",
    "kuka_arm_joint_aN", "robot_a_JOINT_AN", "explicit-list-of-left_joint_N", "explicit-list-of-${prefix}joint_N",
];

fn joint_name(naming: usize, n: usize) -> String {
    match naming {
        0 => format!("joint{n}"),
        1 => format!("joint_{n}"),
        2 => format!("${{prefix}}joint_a{n}"),
        3 => format!("left_joint_{n}"),
        4 => format!("JOINT_{n}"),
        5 => format!("${{prefix}}JOINT_A{n}"),
        6 => format!("arm_axis_{n}"),
        // a literal prefix that contains the decoration letter between "joint" and the number
        8 => format!("kuka_arm_joint_a{n}"),
        9 => format!("robot_a_JOINT_A{n}"),
        // the same decorated raw names as scheme 3, this time handed over as an explicit list
        10 => format!("left_joint_{n}"),
        // names carrying a xacro argument, listed explicitly exactly as declared
        11 => format!("${{prefix}}joint_{n}"),
        _ => format!("lf_joint_{}", n - 1),
    }
}

fn nth_permutation(mut k: usize) -> [usize; 6] {
    let mut items: Vec<usize> = (0..6).collect();
    let mut out = [0usize; 6];
    let facts = [120, 24, 6, 2, 1, 1];
    for i in 0..6 {
        let f = facts[i];
        let idx = k / f;
        k %= f;
        out[i] = items.remove(idx);
    }
    out
}

fn fmt(x: f64) -> String {
    if x == 0.0 {
        "0".to_string()
    } else {
        format!("{x}")
    }
}

struct Expect {
    rec: Rec,
    signs: [i8; 6],
    from: [f64; 6],
    to: [f64; 6],
    limited: [bool; 6],
    conflict: bool,
}

fn limits_text(style: usize, j: usize) -> (Option<String>, f64, f64, bool) {
    // whole, half and quarter degrees, and a sub-degree range
    let degs: [(f64, f64); 6] = [(-170.0, 170.0), (-190.5, 45.25), (-137.5, 156.0), (-185.0, 185.75), (0.25, 0.75), (-350.0, 350.0)];
    let (lo, hi) = degs[j];
    // mixed documents: only some joints carry a <limit> (a continuous joint after a limited sibling, and the reverse)
    let style = match style {
        6 => if j % 2 == 1 { 4 } else { 1 },
        7 => if j == 5 { 4 } else { 0 },
        8 => match j { 0 | 3 => 4, 2 => 5, _ => 1 },
        s => s,
    };
    match style {
        0 => {
            let (l, h) = ((lo.to_radians() * 1e4).round() / 1e4, (hi.to_radians() * 1e4).round() / 1e4);
            (Some(format!("<limit lower=\"{l}\" upper=\"{h}\" effort=\"0\" velocity=\"3.67\"/>")), l, h, true)
        }
        1 => (
            Some(format!("<limit lower=\"${{radians({lo})}}\" upper=\"${{radians({hi})}}\" effort=\"0\" velocity=\"${{radians(360)}}\"/>")),
            lo.to_radians(),
            hi.to_radians(),
            true,
        ),
        2 => {
            let (l, h) = ((lo.to_radians()).trunc(), (hi.to_radians()).trunc().max(1.0));
            (Some(format!("<limit lower=\"{}\" upper=\"{}\" effort=\"0\" velocity=\"2\"/>", l as i64, h as i64)), l, h, true)
        }
        3 => {
            let (l, h) = (-2.9670 - j as f64 * 0.01, -0.25 + j as f64 * 0.01);
            (Some(format!("<limit lower=\"{l}\" upper=\"{h}\" effort=\"0\" velocity=\"2.6179\"/>")), l, h, true)
        }
        4 => (None, 0.0, 0.0, false),
        _ => (Some("<limit lower=\"${lower_limit}\" upper=\"${upper_limit}\" effort=\"0\" velocity=\"1\"/>".to_string()), 0.0, 0.0, false),
    }
}

fn robot_joints(c: &Case, conflicting: bool) -> (Vec<String>, Expect) {
    let r = records()[c.rec];
    let mut origins: [[f64; 3]; 6] = [[0.0; 3]; 6];
    origins[0] = [0.0, 0.0, r.c1];
    origins[1] = [r.a1, 0.0, 0.0];
    origins[2] = if c.c2_on_x { [r.c2, r.b, 0.0] } else { [0.0, r.b, r.c2] };
    origins[3] = if c.c3_on_j4 { [r.c3, 0.0, -r.a2] } else { [0.0, 0.0, -r.a2] };
    origins[4] = if c.c3_on_j4 { [0.0; 3] } else if c.tail_on_x { [r.c3, 0.0, 0.0] } else { [0.0, 0.0, r.c3] };
    origins[5] = if c.tail_on_x { [r.c4, 0.0, 0.0] } else { [0.0, 0.0, r.c4] };
    if conflicting {
        origins[2][2] += 0.001;
    }
    // rotation axes of an OPW arm: z, y, y, then wrist roll/pitch/roll along the forearm direction
    let wrist_roll = if c.tail_on_x || c.c3_on_j4 { 0 } else { 2 };
    let axis_idx = [2usize, 1, 1, wrist_roll, 1, wrist_roll];
    let mut signs = [1i8; 6];
    let mut from = [0.0; 6];
    let mut to = [0.0; 6];
    let mut limited = [false; 6];
    let mut out = Vec::new();
    for j in 0..6 {
        let neg = c.sign_mask & (1 << j) != 0;
        signs[j] = if neg { -1 } else { 1 };
        let mut s = String::new();
        s.push_str(&format!("<joint name=\"{}\" type=\"revolute\">\n", joint_name(c.naming, j + 1)));
        s.push_str(&format!(
            "  <origin xyz=\"{} {} {}\" rpy=\"0 0 0\"/>\n  <parent link=\"link_{}\"/>\n  <child link=\"link_{}\"/>\n",
            fmt(origins[j][0]),
            fmt(origins[j][1]),
            fmt(origins[j][2]),
            j,
            j + 1
        ));
        let mut ax = ["0".to_string(), "0".to_string(), "0".to_string()];
        ax[axis_idx[j]] = match (c.axis_style, neg) {
            (1, false) => "1.0".into(),
            (1, true) => "-1.0".into(),
            (_, false) => "1".into(),
            (_, true) => "-1".into(),
        };
        if !(c.axis_style == 2 && !neg) {
            s.push_str(&format!("  <axis xyz=\"{} {} {}\"/>\n", ax[0], ax[1], ax[2]));
        }
        let (txt, lo, hi, lim) = limits_text(c.limit_style, j);
        if let Some(t) = txt {
            s.push_str(&format!("  {t}\n"));
        }
        from[j] = lo;
        to[j] = hi;
        limited[j] = lim;
        s.push_str("</joint>\n");
        out.push(s);
    }
    (out, Expect { rec: r, signs, from, to, limited, conflict: false })
}

pub fn document(c: &Case) -> (String, Option<[String; 6]>, Expect) {
    let (joints, mut expect) = robot_joints(c, false);
    let perm = nth_permutation(c.order % 720);
    let mut body = String::new();
    body.push_str("<link name=\"base_link\"><visual><origin xyz=\"0.007579 0.000017 0.180670\" rpy=\"0 0 0\"/></visual></link>\n");
    for &i in &perm {
        body.push_str(&joints[i]);
    }
    // fixed joints that real files carry and that must not be mistaken for an axis
    let six = joint_name(c.naming, 6);
    body.push_str(&format!(
        "<joint name=\"{six}-flange\" type=\"fixed\">\n  <origin xyz=\"0 0 0\" rpy=\"0 0 0\"/>\n  <parent link=\"link_6\"/>\n  <child link=\"flange\"/>\n</joint>\n"
    ));
    body.push_str("<joint name=\"base_link-base\" type=\"fixed\">\n  <origin xyz=\"0 0 0.33\" rpy=\"0 0 0\"/>\n</joint>\n");
    match c.copies {
        1 => {
            for &i in perm.iter().rev() {
                body.push_str(&joints[i]);
            }
        }
        2 => {
            let (other, _) = robot_joints(c, true);
            for &i in &perm {
                body.push_str(&other[i]);
            }
            expect.conflict = true;
        }
        3 => {
            // a second copy that agrees in origin and axis and differs in the limits only
            let other_style = match c.limit_style {
                3 => 0,
                4 | 5 => 0,
                _ => 3,
            };
            let (other, _) = robot_joints(&Case { limit_style: other_style, ..*c }, false);
            for &i in perm.iter().rev() {
                body.push_str(&other[i]);
            }
            expect.conflict = true;
        }
        _ => {}
    }
    let wrapped = match c.nesting {
        0 => format!("<?xml version=\"1.0\"?>\n<robot name=\"r\">\n{body}</robot>\n"),
        1 => format!(
            "<?xml version=\"1.0\"?>\n<robot xmlns:xacro=\"http://wiki.ros.org/xacro\">\n<xacro:macro name=\"arm\" params=\"prefix\">\n{body}</xacro:macro>\n</robot>\n"
        ),
        _ => format!(
            "<?xml version=\"1.0\"?>\n<robot xmlns:xacro=\"http://wiki.ros.org/xacro\">\n<xacro:macro name=\"cell\" params=\"prefix\">\n<group>\n{body}</group>\n</xacro:macro>\n</robot>\n"
        ),
    };
    let names = if c.naming == 6 || c.naming == 7 || c.naming == 10 || c.naming == 11 { Some(std::array::from_fn(|i| joint_name(c.naming, i + 1))) } else { None };
    (wrapped, names, expect)
}

enum Outcome {
    Ok(URDFParameters),
    Err(String),
    Panic(String),
}

/// A different, well-formed description (other lengths, names with another decoration, other limits): parsed just before
/// one in 64 of the documents under test, so that anything the extractor remembers between calls would show.
const DECOY_URDF: &str = r#"<?xml version="1.0"?><robot name="decoy">
<joint name="tool_joint_a1" type="revolute"><origin xyz="0 0 0.71" rpy="0 0 0"/><axis xyz="0 0 -1"/><limit lower="-1.1" upper="1.2" effort="0" velocity="1"/></joint>
<joint name="tool_joint_a2" type="revolute"><origin xyz="0.21 0 0" rpy="0 0 0"/><axis xyz="0 1 0"/><limit lower="-0.5" upper="0.6" effort="0" velocity="1"/></joint>
<joint name="tool_joint_a3" type="revolute"><origin xyz="0 0 0.93" rpy="0 0 0"/><axis xyz="0 -1 0"/><limit lower="-2.1" upper="0.3" effort="0" velocity="1"/></joint>
<joint name="tool_joint_a4" type="revolute"><origin xyz="0 0 0.17" rpy="0 0 0"/><axis xyz="0 0 1"/><limit lower="-3.0" upper="3.0" effort="0" velocity="1"/></joint>
<joint name="tool_joint_a5" type="revolute"><origin xyz="0 0 0.88" rpy="0 0 0"/><axis xyz="0 1 0"/><limit lower="-1.9" upper="1.9" effort="0" velocity="1"/></joint>
<joint name="tool_joint_a6" type="revolute"><origin xyz="0 0 0.12" rpy="0 0 0"/><axis xyz="0 0 -1"/></joint>
</robot>"#;

fn extract(xml: &str, names: &Option<[String; 6]>) -> Outcome {
    // ... and one in 16 documents is first extracted in the *other* naming mode (automatic name simplification vs. an
    // explicit list of the raw names found in it): the two modes must not influence each other
    if xml.len() % 16 == 1 {
        let raw: Vec<String> = xml.match_indices("<joint name=\"").filter_map(|(i, m)| {
            let rest = &xml[i + m.len()..];
            let name = &rest[..rest.find('"')?];
            if xml[i..].starts_with("<joint name=") && rest[rest.find('"')? ..].starts_with("\" type=\"revolute\"") { Some(name.to_string()) } else { None }
        }).collect();
        let _ = catch_unwind(AssertUnwindSafe(|| {
            if names.is_some() {
                let _ = from_urdf(xml.to_string(), &None);
            } else if raw.len() >= 6 {
                let mut sorted = raw.clone();
                sorted.sort();
                sorted.dedup();
                if sorted.len() == 6 {
                    let refs: [&str; 6] = std::array::from_fn(|i| sorted[i].as_str());
                    let _ = from_urdf(xml.to_string(), &Some(refs));
                }
            }
        }));
    }
    if xml.len() % 64 == 0 {
        let _ = catch_unwind(AssertUnwindSafe(|| from_urdf(DECOY_URDF.to_string(), &None)));
    }
    let r = catch_unwind(AssertUnwindSafe(|| {
        let refs: Option<[&str; 6]> = names.as_ref().map(|n| std::array::from_fn(|i| n[i].as_str()));
        from_urdf(xml.to_string(), &refs)
    }));
    match r {
        Err(p) => Outcome::Panic(panic_message(&p)),
        Ok(Ok(u)) => Outcome::Ok(u),
        Ok(Err(e)) => Outcome::Err(format!("{e}")),
    }
}

fn layout_tag(c: &Case) -> String {
    format!(
        "c2-on-{}/c3-on-j{}{}",
        if c.c2_on_x { "x" } else { "z" },
        if c.c3_on_j4 { 4 } else { 5 },
        if records()[c.rec].a2 == 0.0 && c.c3_on_j4 { "/a2=0" } else { "" }
    )
}

pub fn eval(c: &Case) -> (Vec<(String, String)>, String) {
    let mut fails = Vec::new();
    let (xml, names, e) = document(c);
    let out = extract(&xml, &names);
    let naming = NAMINGS[c.naming];
    match out {
        Outcome::Panic(m) => {
            fails.push((format!("C20/panic/{naming}"), m));
            return (fails, "panic".into());
        }
        Outcome::Err(msg) => {
            if !e.conflict {
                fails.push((
                    format!("C20/rejected/names-{naming}/{}", layout_tag(c)),
                    format!("a well-formed OPW-layout description was rejected: {msg}"),
                ));
            }
            return (fails, if e.conflict { "conflict:err".into() } else { "err".into() });
        }
        Outcome::Ok(u) => {
            if e.conflict {
                fails.push(("C20/conflicting-copy-accepted".to_string(), "two differing descriptions of the same joint were accepted".into()));
                return (fails, "conflict:ok".into());
            }
            let got = [u.a1, u.a2, u.b, u.c1, u.c2, u.c3, u.c4];
            let want = [e.rec.a1, e.rec.a2, e.rec.b, e.rec.c1, e.rec.c2, e.rec.c3, e.rec.c4];
            let nm = ["a1", "a2", "b", "c1", "c2", "c3", "c4"];
            for i in 0..7 {
                if !(got[i] == want[i]) {
                    fails.push((
                        format!("C20/parameter-{}/{}", nm[i], layout_tag(c)),
                        format!("{} extracted as {} instead of {} (all: {:?} vs {:?})", nm[i], got[i], want[i], got, want),
                    ));
                    break;
                }
            }
            if u.sign_corrections != e.signs {
                fails.push((format!("C20/signs/axis-style{}", c.axis_style), format!("sign corrections {:?} instead of {:?}", u.sign_corrections, e.signs)));
            }
            for j in 0..6 {
                if e.limited[j] && !((u.from[j] - e.from[j]).abs() <= 1e-12 && (u.to[j] - e.to[j]).abs() <= 1e-12) {
                    fails.push((
                        format!("C20/limits/style{}", c.limit_style),
                        format!("joint {} limits [{}, {}] instead of [{}, {}]", j + 1, u.from[j], u.to[j], e.from[j], e.to[j]),
                    ));
                    break;
                }
            }
            // the resulting solver: a joint without limits is unconstrained, limited joints follow the arc
            let robot = u.to_robot(0.0, &[0.0; 6]);
            if let Some(cons) = robot.constraints() {
                for probe in [[0.0; 6], [3.0, -3.0, 2.5, -2.5, 1.0, 6.0], [-1.0, 0.4, -0.4, 3.1, -1.9, -5.5]] {
                    let want = arc_member6(&e.from, &e.to, &probe, 1e-9);
                    let got = cons.compliant(&probe);
                    if (want == ArcVerdict::Inside && !got) || (want == ArcVerdict::Outside && got) {
                        fails.push((
                            format!("C20/solver-limits/{}", if e.limited.iter().all(|l| !l) { "no-limits" } else { "limits" }),
                            format!("solver built from the description says compliant({probe:?}) = {got}, limits say {want:?}"),
                        ));
                        break;
                    }
                }
            } else {
                fails.push(("C20/solver-limits/none".to_string(), "to_robot produced a solver without constraints".into()));
            }
            (fails, format!("ok:{naming}:{}", layout_tag(c)))
        }
    }
}

/// Error paths: a missing joint, and single-token corruptions of the XML text.
fn eval_broken(c: &Case, kind: usize) -> (Vec<(String, String)>, String) {
    let mut fails = Vec::new();
    let single = Case { copies: 0, ..*c };
    let (xml, names, _) = document(&single);
    let (text, must_err) = if kind < 6 {
        // drop joint kind+1 entirely
        let name = joint_name(c.naming, kind + 1);
        let start = xml.find(&format!("<joint name=\"{name}\" type=\"revolute\"")).unwrap();
        let end = xml[start..].find("</joint>\n").unwrap() + start + "</joint>\n".len();
        (format!("{}{}", &xml[..start], &xml[end..]), true)
    } else {
        // corrupt the k-th token boundary
        let k = kind - 6;
        let toks = ["<", ">", "\"", "/", "=", "xyz", "joint", "</robot>", "0 0", "name"];
        let tok = toks[k % toks.len()];
        let occ = k / toks.len();
        let mut pos = None;
        let mut from = 0;
        for _ in 0..=occ {
            match xml[from..].find(tok) {
                Some(p) => {
                    pos = Some(from + p);
                    from = from + p + tok.len();
                }
                None => {
                    pos = None;
                    break;
                }
            }
        }
        let Some(p) = pos else { return (fails, "none".into()) };
        let junk = ["", "<<", "&", "\u{0}", "1e", ">"][(k / 3) % 6];
        (format!("{}{}{}", &xml[..p], junk, &xml[p + tok.len()..]), false)
    };
    match extract(&text, &names) {
        Outcome::Panic(m) => fails.push((format!("C20/panic/broken-{}", if kind < 6 { "missing-joint" } else { "xml" }), m)),
        Outcome::Ok(_) if must_err => fails.push((format!("C20/missing-joint-accepted/joint{}", kind + 1), "a description lacking a joint was accepted".into())),
        _ => {}
    }
    (fails, if kind < 6 { "missing-joint".into() } else { "corrupt".into() })
}

fn case_json(c: &Case) -> Value {
    json!({"rec": c.rec, "c2_on_x": c.c2_on_x, "c3_on_j4": c.c3_on_j4, "tail_on_x": c.tail_on_x, "sign_mask": c.sign_mask, "axis_style": c.axis_style,
        "limit_style": c.limit_style, "order": c.order, "nesting": c.nesting, "naming": c.naming, "copies": c.copies})
}
fn case_from_json(v: &Value) -> Case {
    let u = |k: &str| v[k].as_u64().unwrap() as usize;
    let b = |k: &str| v[k].as_bool().unwrap();
    Case { rec: u("rec"), c2_on_x: b("c2_on_x"), c3_on_j4: b("c3_on_j4"), tail_on_x: b("tail_on_x"), sign_mask: u("sign_mask") as u32,
        axis_style: u("axis_style"), limit_style: u("limit_style"), order: u("order"), nesting: u("nesting"), naming: u("naming"), copies: u("copies") }
}

pub fn run(ctx: &Ctx) -> Report {
    let thorough = !ctx.quick();
    let nrec = records().len();
    // full product over (record, layout(8), naming(8), nesting(3)); the remaining axes rotate with the permutation index
    // thorough: every second permutation per (record, naming) combination, the parity alternating, so that all 720 orders occur
    let n_order = if thorough { 360 } else { 12 };
    let sizes = [nrec, 8, NAMINGS.len(), 3, n_order];
    let n = par::product(&sizes);
    let mut rep = par::run(n, |idx, r| {
        let mut ix = [0usize; 5];
        par::decode(idx, &sizes, &mut ix);
        let k = ix[4];
        let order = if thorough { 2 * k + (ix[0] + ix[2]) % 2 } else { (k * 60 + ix[0] * 7 + ix[2] * 11 + ix[1]) % 720 };
        let c = Case {
            rec: ix[0],
            c2_on_x: ix[1] & 1 != 0,
            c3_on_j4: ix[1] & 2 != 0,
            tail_on_x: ix[1] & 4 != 0,
            sign_mask: ((k * 7 + ix[0] * 13 + ix[2] * 3 + ix[1]) % 64) as u32,
            axis_style: (k + ix[3]) % 3,
            limit_style: (k + ix[1]) % 9,
            order,
            nesting: ix[3],
            naming: ix[2],
            copies: (k / 2 + ix[2]) % 4,
        };
        let (fails, sig) = eval(&c);
        r.states += 1;
        r.transitions += 1;
        r.sig(sig);
        if idx % 9973 == 0 {
            r.sample(|| json!({"case": case_json(&c), "xml_head": document(&c).0.chars().take(600).collect::<String>()}));
        }
        for (kk, d) in fails {
            r.fail(kk, idx, json!({"kind":"extract","case": case_json(&c)}), d);
        }
        // error paths on a sub-lattice
        if k == 0 && (thorough || ix[3] == 0) {
            for kind in 0..(6 + if thorough { 120 } else { 30 }) {
                let (fails, sig) = eval_broken(&c, kind);
                r.states += 1;
                r.transitions += 1;
                r.sig(sig);
                for (kk, d) in fails {
                    r.fail(kk, idx, json!({"kind":"broken","case": case_json(&c), "broken": kind}), d);
                }
            }
        }
    });
    rep.traces_validated = rep.transitions;
    rep.rule = format!(
        "generated descriptions: 9 parameter records (incl. exact relations between parameters of one origin) x layouts {{c2 on z|x}} x {{c3 on joint 5|4}} x {{wrist along z|x}} x 12 naming schemes (incl. decorated, names with a xacro argument listed explicitly as declared, a literal prefix sharing the decoration letter, the same decorated names once resolved automatically and once listed explicitly, \
         upper-case, explicit one-/zero-based lists) x nesting {{flat, xacro:macro, two levels}} x {n_order} joint-order permutations, with sign pattern (64), axis \
         syntax, limit syntax (6 uniform + 3 mixed per joint: even joints only, all but J6, J1/J4 absent with J3 unreadable) and single/identical/conflicting (origin; limits only) copy rotating along the permutation axis; oracle: parameters equal the printed decimals, \
         signs, limits, solver constraints follow arc membership (no <limit> => unconstrained), conflicting copy => Err; error paths: each joint missing, \
         token corruptions => never a panic; signature = (outcome, naming, layout)"
    );
    rep.set("axes", json!({"records": nrec, "layouts": 8, "namings": NAMINGS.to_vec(), "nestings": 3, "orders": n_order}));
    rep.assumptions.push("5-DOF detection is not judged: the statement does not demand it and no generated description omits joint 6".into());
    rep
}

pub fn replay(case: &Value) -> Vec<String> {
    let c = case_from_json(&case["case"]);
    let f = if case["kind"] == "broken" { eval_broken(&c, case["broken"].as_u64().unwrap() as usize).0 } else { eval(&c).0 };
    f.into_iter().map(|(k, d)| format!("{k}: {d}")).collect()
}
