//! C14 — single-joint offsets offered to search planners are exactly the legal, collision-free ones.

use crate::c10::env_layout;
use crate::common::arc::*;
use crate::common::cell::*;
use crate::common::ev::*;
use crate::common::m3::*;
use crate::common::par;
use crate::common::stack::Limits;
use rs_opw_kinematics::kinematic_traits::Joints;
use serde_json::{json, Value};

#[derive(Clone, Debug)]
pub struct Case {
    pub presence: usize, // 0 tool+base, 1 tool, 2 base, 3 none, 4 moved base + tool, 5 tool+base under a parallelogram (J2 drives J3), 6 tool + base whose body includes a post beside the robot (not symmetric about J1)
    pub layout: usize,
    pub safety: usize, // 0 touch, 1 3 cm, 2 3 cm with the pairs (J1, J6) and (J2, J6) exempt (NEVER_COLLIDES), 3 collision checking switched off (only the limits clause is judged)
    pub limits: usize, // 0 wide, 1 tight
    pub initial: Joints,
    pub delta: [f64; 6],
    /// how from / to are laid around the initial vector: 0 = initial -+ delta; 1 = from == to == initial + delta;
    /// 2 = from == to == initial - delta; 3 = both on the same side (initial + delta/2, initial + delta)
    pub shape: usize,
}

fn cell_for(c: &Case) -> CellDesc {
    let mut cell = CellDesc::standard();
    match c.presence {
        1 => cell.base = None,
        2 => cell.tool = None,
        3 => {
            cell.base = None;
            cell.tool = None;
        }
        4 => cell.base = Some(Iso::new(rotz(0.4), [0.3, -0.2, 0.1])),
        5 => cell.para = Some((1, 2, 1.0)),
        6 => cell.base_shape = 1,
        _ => {}
    }
    cell.envs = match c.layout {
        // a block next to the shoulder that the upper arm hits when J2 swings
        20 => vec![EnvObj { lo: [0.45, -0.3, 0.45], hi: [0.75, 0.3, 0.75], subdiv: 1, pose: Iso::identity(), shape: 0 }],
        k => env_layout(k),
    };
    cell.safety = if c.safety == 0 {
        SafetyDesc::touch(0)
    } else if c.safety == 3 {
        SafetyDesc::touch(2)
    } else if c.safety == 2 {
        SafetyDesc { to_env: 0.03, to_robot: 0.03, special: vec![((0, 5), rs_opw_kinematics::collisions::NEVER_COLLIDES), ((5, 1), rs_opw_kinematics::collisions::NEVER_COLLIDES)], mode: 0 }
    } else {
        SafetyDesc { to_env: 0.03, to_robot: 0.03, special: vec![], mode: 0 }
    };
    cell.limits = if c.limits == 0 {
        Limits { from: [-3.1; 6], to: [3.1; 6], weight: 0.0 }
    } else {
        Limits { from: [-1.0, -0.8, -1.2, -2.0, -1.5, -2.0], to: [1.0, 1.6, 1.9, 2.0, 1.5, 2.0], weight: 0.0 }
    };
    cell
}

fn same_multiset(a: &[Joints], b: &[Joints]) -> bool {
    if a.len() != b.len() {
        return false;
    }
    let key = |j: &Joints| j.map(f64::to_bits);
    let mut x: Vec<[u64; 6]> = a.iter().map(key).collect();
    let mut y: Vec<[u64; 6]> = b.iter().map(key).collect();
    x.sort();
    y.sort();
    x == y
}

pub fn eval(c: &Case, pools: bool) -> Result<(Vec<(String, String)>, String), &'static str> {
    let cell = cell_for(c);
    let robot = cell.robot();
    if robot.collides(&c.initial) {
        return Err("initial collides");
    }
    let (from, to): (Joints, Joints) = match c.shape {
        1 => (std::array::from_fn(|i| c.initial[i] + c.delta[i]), std::array::from_fn(|i| c.initial[i] + c.delta[i])),
        2 => (std::array::from_fn(|i| c.initial[i] - c.delta[i]), std::array::from_fn(|i| c.initial[i] - c.delta[i])),
        3 => (std::array::from_fn(|i| c.initial[i] + 0.5 * c.delta[i]), std::array::from_fn(|i| c.initial[i] + c.delta[i])),
        _ => (std::array::from_fn(|i| c.initial[i] - c.delta[i]), std::array::from_fn(|i| c.initial[i] + c.delta[i])),
    };
    if c.safety == 3 {
        // checking switched off: whether collisions are still looked at is not fixed by the statement; that every offered
        // vector is a single-joint replacement within the limits is
        let mut fails = Vec::new();
        let got = robot.non_colliding_offsets(&c.initial, &from, &to);
        for g in &got {
            if arc_member6(&cell.limits.from, &cell.limits.to, &cell.inner_joints(g), 1e-9) == ArcVerdict::Outside && arc_member6(&cell.limits.from, &cell.limits.to, g, 1e-9) == ArcVerdict::Outside {
                fails.push(("C14/illegal-offered/checking-off".to_string(), format!("offered {g:?} although it violates the joint limits (collision checking switched off)")));
                break;
            }
        }
        return Ok((fails, format!("checking-off:offered{}", got.len())));
    }
    let mut fails = Vec::new();
    let mut want: Vec<Joints> = Vec::new();
    let mut classes = [0usize; 3]; // offered, illegal, colliding
    let mut blocked_by: Vec<String> = Vec::new();
    let mut tool_only = false;
    let mut moved_links_only = false;
    let mut j1_base_only = false;
    for k in 0..6 {
        for target in [&from, &to] {
            let mut cand = c.initial;
            cand[k] = target[k];
            if cell.para.is_some() {
                // "within limits" is read on the offered vector; where the wrapped robot's own joint vector would be judged
                // differently the case is ambiguous and not used
                let inner = cell.inner_joints(&cand);
                if arc_member6(&cell.limits.from, &cell.limits.to, &cand, 1e-9) != arc_member6(&cell.limits.from, &cell.limits.to, &inner, 1e-9) {
                    return Err("limits reading ambiguous under the coupling");
                }
            }
            match arc_member6(&cell.limits.from, &cell.limits.to, &cand, 1e-9) {
                ArcVerdict::Outside => {
                    classes[1] += 1;
                    continue;
                }
                ArcVerdict::Boundary => return Err("candidate on a limit"),
                ArcVerdict::Inside => {}
            }
            if robot.collides(&cand) {
                classes[2] += 1;
                let det: Vec<(usize, usize)> = {
                    let mut all = cell.clone();
                    all.safety.mode = 1;
                    all.robot().collision_details(&cand)
                };
                // is this candidate blocked *only* by the tool (or a moved link) meeting a link before the moved joint?
                if !det.is_empty() && det.iter().all(|&(a, b)| a < k && b == rs_opw_kinematics::kinematic_traits::J_TOOL) {
                    tool_only = true;
                }
                // ... or only by two links that both lie at or beyond the moved joint (possible when a coupling bends the chain)?
                if !det.is_empty() && det.iter().all(|&(a, b)| a >= k && b >= k && a < 6 && b < 6) {
                    moved_links_only = true;
                }
                if k == 0 && !det.is_empty() && det.iter().all(|&(_, b)| b == rs_opw_kinematics::kinematic_traits::J_BASE) {
                    j1_base_only = true;
                }
                blocked_by.push(format!("J{}:{:?}", k + 1, det));
                continue;
            }
            classes[0] += 1;
            want.push(cand);
        }
    }
    let got = robot.non_colliding_offsets(&c.initial, &from, &to);
    if !same_multiset(&got, &want) {
        let extra: Vec<&Joints> = got.iter().filter(|g| !want.iter().any(|w| w == *g)).collect();
        let missing: Vec<&Joints> = want.iter().filter(|w| !got.iter().any(|g| g == *w)).collect();
        let moved = |j: &Joints| (0..6).find(|&i| j[i].to_bits() != c.initial[i].to_bits()).map_or(0, |i| i + 1);
        if let Some(e) = extra.first() {
            fails.push((
                format!("C14/colliding-or-illegal-offered/joint{}", moved(e)),
                format!("offered {e:?} although limits/full collision check reject it; blocked candidates: {blocked_by:?}"),
            ));
        }
        if let Some(m) = missing.first() {
            fails.push((format!("C14/free-candidate-withheld/joint{}", moved(m)), format!("{m:?} is legal and collision-free but was not offered")));
        }
        if extra.is_empty() && missing.is_empty() {
            fails.push(("C14/multiplicity".to_string(), format!("offered {} vectors, expected {}", got.len(), want.len())));
        }
    }
    if pools {
        for (threads, pool) in crate::c10::pools_1_to_16() {
            let g = pool.install(|| robot.non_colliding_offsets(&c.initial, &from, &to));
            if !same_multiset(&g, &got) {
                fails.push((format!("C14/pool{threads}"), "offered set depends on the thread pool size".into()));
            }
        }
    }
    Ok((fails, format!("offered{}:illegal{}:colliding{}{}", classes[0], classes[1], classes[2].min(6), if tool_only { ":tool-vs-unmoved-link-only" } else { "" }).to_string() + if moved_links_only { ":moved-links-only" } else { "" } + if j1_base_only && cell.envs.is_empty() { ":j1-into-base-in-empty-cell" } else { "" }))
}

fn case_json(c: &Case) -> Value {
    json!({"presence": c.presence, "layout": c.layout, "safety": c.safety, "limits": c.limits, "initial": nums(&c.initial), "delta": nums(&c.delta), "shape": c.shape})
}

pub fn run(ctx: &Ctx) -> Report {
    let thorough = !ctx.quick();
    let initials: Vec<Joints> = vec![
        [0.0, 0.3, 0.3, 0.0, 0.5, 0.0],
        [0.5, 0.8, 0.4, 0.3, -0.6, 0.2],
        [-0.7, -0.4, 1.0, -0.5, 0.9, -0.3],
        [0.0, 1.0, 1.2, 0.0, 0.0, 0.0],
        [0.2, 0.0, 0.0, 1.0, 1.2, 0.0],
        [0.0, 1.4, -0.6, 0.4, 0.8, 0.1],
        // wrist bent so that the tool sticks out sideways / back towards the arm
        [0.0, 0.4, 0.9, 0.0, 1.5, 0.0],
        [0.3, 0.9, 1.4, 1.5, 1.2, 0.0],
        [0.0, 1.1, 1.6, 0.0, -1.3, 0.5],
        [-0.4, 0.2, 2.0, -1.0, 1.0, 0.0],
    ];
    let mags = [0.35, 1.3, 2.2, 2.9, 0.8, 1.8];
    let n_delta = if thorough { 72 } else { 24 };
    let layouts = [0usize, 2, 3, 9, 10, 20];
    let sizes = [7, layouts.len(), 4, 2, initials.len(), n_delta];
    let n = par::product(&sizes);
    let mut rep = par::run(n, |idx, r| {
        let mut ix = [0usize; 6];
        par::decode(idx, &sizes, &mut ix);
        let d = ix[5];
        // delta vectors: joint i takes magnitude (d + i*(1 + d/4)) mod 4, so each joint sees each magnitude next to each neighbour magnitude
        let delta: [f64; 6] = std::array::from_fn(|i| mags[(d + i * (1 + d / 6)) % 6]);
        let c = Case { presence: ix[0], layout: layouts[ix[1]], safety: ix[2], limits: ix[3], initial: initials[ix[4]], delta, shape: if (idx / 3) % 2 == 0 { 0 } else { 1 + (idx as usize / 6) % 3 } };
        // the table with exempt pairs on the cells with everything and with nothing attached
        if c.safety == 2 && !(c.presence == 0 || c.presence == 3) {
            return;
        }
        // checking switched off: the free cell only, tight limits (so that some candidates are illegal)
        if c.safety == 3 && !(c.layout == 0 && c.limits == 1 && c.presence <= 1) {
            return;
        }
        match eval(&c, idx % 8 == 0) {
            Err(_) => r.skipped_precondition += 1,
            Ok((fails, sig)) => {
                r.states += 1;
                r.transitions += 13;
                r.sig(sig);
                if idx % 2003 == 0 {
                    r.sample(|| case_json(&c));
                }
                for (k, dd) in fails {
                    r.fail(k, idx, case_json(&c), dd);
                }
            }
        }
    });
    if !rep.signatures.iter().any(|s| !s.contains("colliding0")) && rep.fails.is_empty() {
        rep.machinery_errors.push("no candidate was ever rejected for a collision".into());
    }
    if !rep.signatures.iter().any(|s| s.contains("moved-links-only")) && rep.fails.is_empty() {
        rep.machinery_errors.push("no candidate blocked only by two links at or beyond the moved joint (parallelogram cell)".into());
    }
    if !rep.signatures.iter().any(|s| s.contains("j1-into-base-in-empty-cell")) && rep.fails.is_empty() {
        rep.machinery_errors.push("no J1 candidate blocked only by the stationary base body in a cell without environment objects".into());
    }
    if !rep.signatures.iter().any(|s| s.contains("tool-vs-unmoved-link-only")) && rep.fails.is_empty() {
        rep.machinery_errors.push("no candidate blocked only by the tool meeting a link before the moved joint".into());
    }
    rep.traces_validated = rep.transitions;
    rep.rule = "synthetic cell (with/without base and tool, moved base, parallelogram J2->J3 on top, base body with a post beside the robot) x environments x safety {touch, 3 cm, 3 cm with (J1, J6) and (J2, J6) exempt, checking switched off (limits clause only)} x limits {wide, tight} x collision-free initial \
                postures x from/to = initial -+ delta (half of the cases: from == to on one side of the initial value, or both on the same side) with per-joint magnitudes {0.35,0.8,1.3,1.8,2.2,2.9} (moving a joint into free space, self-collision, the base, \
                the environment or out of limits); oracle: the 12 single-joint candidates kept iff arc membership accepts them and the full collides() \
                of the same robot reports them free, compared as multisets; every 8th case re-run in rayon pools of 1, 2, 4, 8, 16 threads; \
                signature = (offered, illegal, colliding)".into();
    rep.set("axes", json!({"presence": 7, "layouts": layouts.len(), "safety": 4, "limits": 2, "initials": initials.len(), "delta_vectors": n_delta}));
    rep.assumptions.push("the full collision check used as reference is tied to the brute-force pair oracle by C10".into());
    rep
}

pub fn replay(case: &Value) -> Vec<String> {
    let u = |k: &str| case[k].as_u64().unwrap() as usize;
    let c = Case { presence: u("presence"), layout: u("layout"), safety: u("safety"), limits: u("limits"), initial: as_arr6(&case["initial"]), delta: as_arr6(&case["delta"]), shape: case["shape"].as_u64().unwrap_or(0) as usize };
    match eval(&c, false) {
        Ok((f, _)) => f.into_iter().map(|(k, d)| format!("{k}: {d}")).collect(),
        Err(_) => vec![],
    }
}
