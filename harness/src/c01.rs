//! C01 — every IK answer reproduces the requested pose (soundness, finiteness, normalisation, no panic).

use crate::common::ev::*;
use crate::common::fkref;
use crate::common::m3::*;
use crate::common::par;
use crate::common::robots::*;
use crate::common::stack::*;
use nalgebra::{Quaternion, Translation3, UnitQuaternion};
use rs_opw_kinematics::kinematic_traits::{Joints, Pose, CONSTRAINT_CENTERED};
use rs_opw_kinematics::kinematics_impl::OPWKinematics;
use rs_opw_kinematics::parameters::opw_kinematics::Parameters;
use serde_json::{json, Value};
use std::f64::consts::PI;

pub const POS_TOL: f64 = 1e-6 * (1.0 + 1e-3);
pub const ANG_TOL: f64 = 1e-6 * (1.0 + 1e-3);
const THR: f64 = 0.01 * PI / 180.0;

#[derive(Clone, Copy, Debug, PartialEq)]
pub enum PoseClass {
    Reachable,
    Unreachable,
    ShoulderAxis,
    NonFinite,
    Unnormalised,
}

impl PoseClass {
    fn name(&self) -> &'static str {
        match self {
            PoseClass::Reachable => "reachable",
            PoseClass::Unreachable => "unreachable",
            PoseClass::ShoulderAxis => "wrist-centre-on-j1-axis",
            PoseClass::NonFinite => "non-finite",
            PoseClass::Unnormalised => "unnormalised-quaternion",
        }
    }
    fn from_name(s: &str) -> PoseClass {
        for c in [
            PoseClass::Reachable,
            PoseClass::Unreachable,
            PoseClass::ShoulderAxis,
            PoseClass::NonFinite,
            PoseClass::Unnormalised,
        ] {
            if c.name() == s {
                return c;
            }
        }
        panic!("pose class {s}")
    }
}

/// A pose given by its raw components so that non-finite / un-normalised requests can be expressed.
#[derive(Clone, Copy, Debug)]
pub struct RawPose {
    pub t: [f64; 3],
    pub q: [f64; 4], // w x y z, passed to the library as is (new_unchecked)
}

impl RawPose {
    pub fn from_iso(i: &Iso) -> RawPose {
        let p = to_na(i);
        let q = p.rotation.quaternion();
        RawPose { t: i.t, q: [q.w, q.i, q.j, q.k] }
    }
    pub fn to_pose(&self) -> Pose {
        Pose::from_parts(
            Translation3::new(self.t[0], self.t[1], self.t[2]),
            UnitQuaternion::new_unchecked(Quaternion::new(self.q[0], self.q[1], self.q[2], self.q[3])),
        )
    }
    pub fn to_iso(&self) -> Iso {
        Iso::new(quat_to_m3(self.q[0], self.q[1], self.q[2], self.q[3]), self.t)
    }
    pub fn json(&self) -> Value {
        json!({"t": nums(&self.t), "q_wxyz": nums(&self.q)})
    }
    pub fn from_json(v: &Value) -> RawPose {
        let q = as_nums(&v["q_wxyz"]);
        RawPose { t: as_arr3(&v["t"]), q: [q[0], q[1], q[2], q[3]] }
    }
}

pub fn user_joints(p: &Parameters, theta: &[f64; 6]) -> Joints {
    let mut j = [0.0; 6];
    for i in 0..6 {
        let s = p.sign_corrections[i] as f64;
        j[i] = if s == 0.0 { 0.0 } else { (theta[i] + p.offsets[i]) * s };
    }
    j
}

/// Is the wrist centre of `pose` outside the reach of both shoulder configurations (with margin)?
fn surely_unreachable(p: &Parameters, pose: &Iso) -> bool {
    let c = sub(pose.t, scale(pose.z_axis(), p.c4));
    let rho2 = c[0] * c[0] + c[1] * c[1] - p.b * p.b;
    if rho2 < -1e-6 {
        return true;
    }
    let rho = rho2.max(0.0).sqrt();
    let k = (p.a2 * p.a2 + p.c3 * p.c3).sqrt();
    let pz = c[2] - p.c1;
    let mut all_out = true;
    for sx in [1.0, -1.0] {
        let px = sx * rho - p.a1;
        let d = (px * px + pz * pz).sqrt();
        let outer = p.c2.abs() + k;
        let inner = (p.c2.abs() - k).abs();
        if !(d > outer * (1.0 + 1e-6) + 1e-6 || d < inner * (1.0 - 1e-6) - 1e-6) {
            all_out = false;
        }
    }
    all_out
}

pub struct Case {
    pub params: Parameters,
    pub class: PoseClass,
    pub pose: RawPose,
    pub entry: Entry,
    pub prev: Joints,
    pub j6: f64,
}

impl Case {
    pub fn json(&self) -> Value {
        json!({
            "params": params_json(&self.params),
            "class": self.class.name(),
            "pose": self.pose.json(),
            "entry": self.entry.name(),
            "prev": nums(&self.prev),
            "j6": num(self.j6),
        })
    }
    pub fn from_json(v: &Value) -> Case {
        Case {
            params: params_from_json(&v["params"]),
            class: PoseClass::from_name(v["class"].as_str().unwrap()),
            pose: RawPose::from_json(&v["pose"]),
            entry: Entry::from_name(v["entry"].as_str().unwrap()),
            prev: as_arr6(&v["prev"]),
            j6: as_num(&v["j6"]),
        }
    }
}

/// Returns (failures, number of answers).
pub fn eval(c: &Case) -> (Vec<(String, String)>, usize) {
    let mut fails = Vec::new();
    let p = &c.params;
    let robot = OPWKinematics::new(*p);
    let pose = c.pose.to_pose();
    let want = c.pose.to_iso();
    let tag = format!("{}/dof{}/{}", c.entry.name(), p.dof, c.class.name());
    let sols = match call(&robot, c.entry, &pose, &c.prev, c.j6) {
        Ok(s) => s,
        Err(m) => {
            fails.push((format!("C01/panic/{tag}"), format!("panicked: {m}")));
            return (fails, 0);
        }
    };
    let five = p.dof == 5 || matches!(c.entry, Entry::FiveDof | Entry::Continuing5);
    for s in &sols {
        if !s.iter().all(|x| x.is_finite()) {
            fails.push((format!("C01/nonfinite/{tag}"), format!("answer {s:?} has a non-finite angle")));
            continue;
        }
        if c.entry == Entry::Inverse {
            let upto = if p.dof == 5 { 5 } else { 6 };
            if s.iter().take(upto).any(|a| a.abs() > PI * (1.0 + 1e-15)) {
                fails.push((format!("C01/range/{tag}"), format!("plain inverse answer {s:?} outside [-pi,pi]")));
            }
        }
        if c.class == PoseClass::Unnormalised {
            continue; // request is not in SE(3): only no-panic / finiteness demanded
        }
        let got = fkref::fk(p, s);
        let (dp, da) = pose_dist(&got, &want);
        if !(dp <= POS_TOL) {
            fails.push((
                format!("C01/unsound-position/{tag}"),
                format!("answer {s:?} misses the requested position by {dp:e} m"),
            ));
        } else if five {
            let ax = dir_angle(got.z_axis(), want.z_axis());
            if !(ax <= ANG_TOL) {
                fails.push((
                    format!("C01/unsound-axis/{tag}"),
                    format!("answer {s:?} misses the requested tool axis by {ax:e} rad"),
                ));
            }
        } else if !(da <= ANG_TOL) {
            fails.push((
                format!("C01/unsound-rotation/{tag}"),
                format!("answer {s:?} misses the requested orientation by {da:e} rad"),
            ));
        }
    }
    if c.class == PoseClass::Unreachable && !sols.is_empty() {
        fails.push((
            format!("C01/unreachable-nonempty/{tag}"),
            format!("{} answers for a pose outside the reachable region", sols.len()),
        ));
    }
    (fails, sols.len())
}

fn theta_axes(p: &Parameters, thorough: bool) -> [Vec<f64>; 6] {
    let psi = p.a2.atan2(p.c3);
    if !thorough {
        [
            vec![0.0, 0.7, -2.4, PI],
            vec![-0.9, 0.2, 1.3],
            vec![-1.9, 0.8, -psi, -psi + 1e-7, -psi + 1e-3],
            vec![0.0, 1.1, -3.0],
            vec![0.6, -1.2, 0.0, PI, 1e-9, -1e-9, THR / 2.0, -THR / 2.0],
            vec![0.0, 2.5],
        ]
    } else {
        [
            vec![0.0, 0.7, -2.4, PI, 1.9, -0.4],
            vec![-0.9, 0.2, 1.3, -2.2],
            vec![-1.9, 0.8, -psi, -psi + 1e-7, -psi + 1e-3, PI - psi],
            vec![0.0, 1.1, -3.0, 2.0, PI, -1.3],
            vec![0.6, -1.2, 0.0, PI, 1e-9, -1e-9, THR / 2.0, -THR / 2.0, 2.4, -PI],
            vec![0.0, 2.5, -1.0],
        ]
    }
}

fn prev_classes(q: &Joints) -> Vec<Joints> {
    let mut a = *q;
    a[0] += 2.0 * PI;
    a[3] -= 2.0 * PI;
    a[5] += 2.0 * PI;
    vec![*q, a, [0.0; 6], [7.0 * PI, -7.0 * PI, 7.0 * PI, -7.0 * PI, 7.0 * PI, -7.0 * PI], CONSTRAINT_CENTERED]
}

fn entry_variants(q: &Joints) -> Vec<(Entry, Joints, f64)> {
    let mut v = vec![(Entry::Inverse, [0.0; 6], 0.0)];
    for pr in prev_classes(q) {
        v.push((Entry::Continuing, pr, 0.0));
    }
    v.push((Entry::FiveDof, [0.0; 6], 0.55));
    v.push((Entry::FiveDof, [0.0; 6], -3.0));
    let pc = prev_classes(q);
    v.push((Entry::Continuing5, pc[0], 0.0));
    v.push((Entry::Continuing5, pc[1], 0.0));
    v.push((Entry::Continuing5, pc[4], 0.0));
    v
}

const JUNK: [f64; 6] = [f64::NAN, f64::INFINITY, f64::NEG_INFINITY, 1e308, -1e308, 5e-324];

pub fn run(ctx: &Ctx) -> Report {
    let thorough = !ctx.quick();
    let mut robots = robot_axis(if thorough { 1 } else { 0 }, &[6, 5]);
    // degenerate geometries: divisions by zero inside the closed form must surface as "no answer", never as a panic,
    // a non-finite value or an answer that misses the pose
    for dof in [6i8, 5] {
        for (a1, a2, b, c) in [
            (0.1, -0.1, 0.0, [0.5, 0.0, 0.6, 0.1]), // c2 = 0
            (0.1, 0.0, 0.0, [0.5, 0.6, 0.0, 0.1]),  // a2 = c3 = 0
            (0.0, 0.0, 0.0, [0.0, 0.5, 0.5, 0.0]),  // c1 = c4 = a1 = 0
            (0.0, 0.0, 0.0, [0.0, 0.0, 0.0, 0.0]),  // everything zero
            (0.1, 0.1, 0.3, [0.4, 0.3, 0.3, 0.1]),  // |b| large against the reach in the horizontal plane
        ] {
            robots.push(make(a1, a2, b, c, [1, -1, 1, -1, 1, -1], [0.0, 0.0, -PI / 2.0, 0.0, 0.0, 0.0], dof));
        }
    }
    // per-robot pose lists are built lazily inside the worker; sizes are uniform
    let ax0 = theta_axes(&robots[0], thorough);
    let sizes_a: Vec<usize> = ax0.iter().map(|a| a.len()).collect();
    let n_a = par::product(&sizes_a);
    let n_special = 5 * 2 * 2 + 7 * 6 + 2; // shoulder-axis + non-finite + unnormalised
    let per_robot = n_a + n_special as u64;
    let n = robots.len() as u64 * per_robot;

    let mut rep = par::run(n, |idx, r| {
        let ri = (idx / per_robot) as usize;
        let k = idx % per_robot;
        let p = &robots[ri];
        let ax = theta_axes(p, thorough);
        let mut cases: Vec<(PoseClass, RawPose, Joints)> = Vec::new();
        if k < n_a {
            let mut ix = [0usize; 6];
            par::decode(k, &sizes_a, &mut ix);
            let th = [ax[0][ix[0]], ax[1][ix[1]], ax[2][ix[2]], ax[3][ix[3]], ax[4][ix[4]], ax[5][ix[5]]];
            let q = user_joints(p, &th);
            let pose = fkref::fk(p, &q);
            cases.push((PoseClass::Reachable, RawPose::from_iso(&pose), q));
            // unreachable derivatives for a sub-lattice
            if ix[3] == 0 && ix[5] == 0 && ix[4] < 2 {
                for f in [1.5, 3.0, 1e3] {
                    let far = Iso::new(pose.r, scale(pose.t, f));
                    if surely_unreachable(p, &far) {
                        cases.push((PoseClass::Unreachable, RawPose::from_iso(&far), q));
                    } else {
                        r.skipped_precondition += 1;
                    }
                }
            }
        } else {
            let s = (k - n_a) as usize;
            if s < 20 {
                // wrist centre on the J1 axis (needs b = 0): a1 + c2 sin q2 + k sin(q2+e) = 0
                let e_idx = s % 5;
                let th4 = [0.3, -2.0][(s / 5) % 2];
                let th5 = [0.9, 0.0][(s / 10) % 2];
                let kk = (p.a2 * p.a2 + p.c3 * p.c3).sqrt();
                let psi = p.a2.atan2(p.c3);
                let th3 = ax[2][e_idx];
                let e = th3 + psi;
                let a = p.c2 + kk * e.cos();
                let b = kk * e.sin();
                let m = (a * a + b * b).sqrt();
                if p.b == 0.0 && m > 1e-9 && (p.a1 / m).abs() <= 1.0 {
                    let th2 = (-p.a1 / m).asin() - b.atan2(a);
                    let th = [0.4, th2, th3, th4, th5, 0.7];
                    let q = user_joints(p, &th);
                    let pose = fkref::fk(p, &q);
                    cases.push((PoseClass::ShoulderAxis, RawPose::from_iso(&pose), q));
                } else {
                    r.skipped_precondition += 1;
                }
            } else if s < 20 + 42 {
                let s = s - 20;
                let comp = s / 6;
                let junk = JUNK[s % 6];
                let q = user_joints(p, &[0.3, 0.4, 0.5, 0.6, 0.7, 0.8]);
                let mut raw = RawPose::from_iso(&fkref::fk(p, &q));
                if comp < 3 {
                    raw.t[comp] = junk;
                } else {
                    raw.q[comp - 3] = junk;
                }
                // a denormal in place of a quaternion component leaves a non-unit quaternion
                let class = if comp >= 3 && junk == 5e-324 { PoseClass::Unnormalised } else if junk == 5e-324 { PoseClass::Reachable } else { PoseClass::NonFinite };
                cases.push((class, raw, q));
            } else {
                let s = s - 62;
                let q = user_joints(p, &[0.3, 0.4, 0.5, 0.6, 0.7, 0.8]);
                let mut raw = RawPose::from_iso(&fkref::fk(p, &q));
                let f = [2.0, 1e-3][s % 2];
                for x in raw.q.iter_mut() {
                    *x *= f;
                }
                cases.push((PoseClass::Unnormalised, raw, q));
            }
        }
        for (class, raw, q) in cases {
            r.states += 1;
            for (entry, prev, j6) in entry_variants(&q) {
                let c = Case { params: *p, class, pose: raw, entry, prev, j6 };
                let (fails, nsol) = eval(&c);
                r.transitions += 1;
                r.sig(format!("{}:{}:dof{}:{}", class.name(), entry.name(), p.dof, nsol));
                if (idx + r.transitions) % 500_009 == 0 {
                    r.sample(|| c.json());
                }
                for (key, d) in fails {
                    r.fail(key, idx, c.json(), d);
                }
            }
        }
    });
    // --- threshold sweeps: J5 approaching every multiple of pi along a magnitude ladder, and robots with one length
    // parameter almost (not exactly) zero
    let lad = crate::common::ladder::ladder(&["kinematics_impl.rs"]);
    let lad_quick: Vec<f64> = if thorough { lad.clone() } else { lad.iter().cloned().step_by(2).collect() };
    let srobots = sweep_robots();
    let others: [[f64; 5]; 3] = [[0.3, 0.4, -0.2, 0.7, 1.1], [-2.4, -0.9, 0.8, -1.3, -2.5], [1.2, 0.5, -1.9, 3.0, 0.0]];
    let ssizes = [srobots.len(), lad.len(), 4, others.len()];
    let sn = par::product(&ssizes);
    let srep = par::run(sn, |idx, r| {
        let mut ix = [0usize; 4];
        par::decode(idx, &ssizes, &mut ix);
        let p = &srobots[ix[0]];
        let d = lad[ix[1]] * if ix[2] % 2 == 0 { 1.0 } else { -1.0 };
        let t5 = if ix[2] / 2 == 0 { d } else { PI + d };
        let o = others[ix[3]];
        let q = user_joints(p, &[o[0], o[1], o[2], o[3], t5, o[4]]);
        let raw = RawPose::from_iso(&fkref::fk(p, &q));
        r.states += 1;
        for (entry, prev, j6) in entry_variants(&q) {
            let c = Case { params: *p, class: PoseClass::Reachable, pose: raw, entry, prev, j6 };
            let (fails, nsol) = eval(&c);
            r.transitions += 1;
            r.sig(format!("j5-ladder:{}:dof{}:{}", entry.name(), p.dof, nsol.min(1)));
            for (key, dd) in fails {
                r.fail(format!("{key}/j5-ladder"), n + idx, c.json(), dd);
            }
        }
    });
    rep.merge(srep);
    let trobots = tiny_param_robots(&lad_quick, &[6, 5]);
    let tsizes = [trobots.len(), others.len()];
    let tn = par::product(&tsizes);
    let trep = par::run(tn, |idx, r| {
        let mut ix = [0usize; 2];
        par::decode(idx, &tsizes, &mut ix);
        let p = &trobots[ix[0]];
        let o = others[ix[1]];
        let q = user_joints(p, &[o[0], o[1], o[2], o[3], 0.9, o[4]]);
        let raw = RawPose::from_iso(&fkref::fk(p, &q));
        r.states += 1;
        for (entry, prev, j6) in entry_variants(&q) {
            let c = Case { params: *p, class: PoseClass::Reachable, pose: raw, entry, prev, j6 };
            let (fails, nsol) = eval(&c);
            r.transitions += 1;
            r.sig(format!("tiny-parameter:{}:dof{}:{}", entry.name(), p.dof, nsol.min(1)));
            for (key, dd) in fails {
                r.fail(format!("{key}/tiny-parameter"), n + sn + idx, c.json(), dd);
            }
        }
    });
    rep.merge(trep);
    // --- discontinuity sweep: along joint lines through a few postures the number of answers of inverse(FK(q)) jumps at
    // singularities and at the edge of the reachable set; each jump is located by bisection and every entry point is run on
    // poses a ladder magnitude on either side of it
    {
        let probes = [1e-12, 1e-10, 1e-8, 1e-6, 1e-4];
        let mut jumps = 0u64;
        let mut case_no = n + sn + tn + 1;
        for p in srobots.iter() {
            let robot = OPWKinematics::new(*p);
            let count = |q: &Joints| {
                let pose = to_na(&fkref::fk(p, q));
                std::panic::catch_unwind(std::panic::AssertUnwindSafe(|| rs_opw_kinematics::kinematic_traits::Kinematics::inverse(&robot, &pose).len())).unwrap_or(usize::MAX)
            };
            for o in others.iter() {
                let q0 = user_joints(p, &[o[0], o[1], o[2], o[3], 0.9, o[4]]);
                for ji in 0..6 {
                    let steps = 360;
                    let at = |k: usize| -PI + 2.0 * PI * (k as f64 + 0.37) / steps as f64;
                    let mut prev_n = {
                        let mut q = q0;
                        q[ji] = at(0);
                        count(&q)
                    };
                    for k in 1..steps {
                        let mut q = q0;
                        q[ji] = at(k);
                        let nk = count(&q);
                        if nk == prev_n {
                            continue;
                        }
                        let (mut lo, mut hi) = (at(k - 1), at(k));
                        let n_lo = prev_n;
                        for _ in 0..50 {
                            let mid = 0.5 * (lo + hi);
                            let mut qm = q0;
                            qm[ji] = mid;
                            if count(&qm) == n_lo {
                                lo = mid;
                            } else {
                                hi = mid;
                            }
                        }
                        prev_n = nk;
                        jumps += 1;
                        for d in probes {
                            for x in [lo - d, hi + d] {
                                let mut q = q0;
                                q[ji] = x;
                                let raw = RawPose::from_iso(&fkref::fk(p, &q));
                                rep.states += 1;
                                for (entry, prev, j6) in entry_variants(&q) {
                                    let c = Case { params: *p, class: PoseClass::Reachable, pose: raw, entry, prev, j6 };
                                    let (fails, nsol) = eval(&c);
                                    rep.transitions += 1;
                                    rep.sig(format!("answer-count-jump:{}:dof{}:{}", entry.name(), p.dof, nsol.min(1)));
                                    case_no += 1;
                                    for (key, dd) in fails {
                                        rep.fail(format!("{key}/answer-count-jump"), case_no, c.json(), dd);
                                    }
                                }
                            }
                        }
                    }
                }
            }
        }
        rep.set("answer_count_jumps_located", json!(jumps));
    }
    rep.set("threshold_sweeps", json!({"ladder_values": lad.len(), "ladder_min": lad.first(), "ladder_max": lad.last(),
        "j5_ladder_points": sn, "tiny_parameter_robots": trobots.len(),
        "ladder": "13 mantissas per decade 1e-12..1e-2 plus neighbours / squares / roots of every small float literal of src/kinematics_impl.rs"}));
    rep.traces_validated = rep.transitions;
    rep.rule = "robots R (geometry x signs x offsets x dof 5/6 + presets) x poses {FK_ref(theta lattice incl. J5 = 0, pi, +-1e-9, +-thr/2, stretched elbow), \
                scaled-out unreachable, wrist centre on J1 axis, NaN/inf/1e308/denormal in each pose component, un-normalised quaternion} x \
                entry points x previous classes {solution, +-2pi, zeros, +-7pi, CONSTRAINT_CENTERED}; each answer is pushed through FK_ref; \
                discontinuity sweep: jumps of the answer count along 90 joint lines located by bisection, all entry points on both sides at 1e-12..1e-4; threshold sweeps: J5 = {0, pi} +- every ladder magnitude on 5 sweep robots x 3 postures, and robots with a1 / a2 / b / c4 = +- ladder magnitude; \
                signature = (pose class, entry, dof, number of answers)".into();
    rep.set("axes", json!({"robots": robots.len(), "theta_axis_sizes": sizes_a, "special_per_robot": n_special, "entry_variants": 11}));
    rep.set("tolerances", json!({"pos_m": POS_TOL, "ang_rad": ANG_TOL}));
    rep.assumptions.push("lattice-relative: values outside the printed axes are not covered".into());
    rep
}

pub fn replay(case: &Value) -> Vec<String> {
    let c = Case::from_json(case);
    eval(&c).0.into_iter().map(|(k, d)| format!("{k}: {d}")).collect()
}
