//! C18 — random joint vectors drawn from constraints always satisfy them.
//! E3: every raw draw of the sampler is scripted through the ScriptedRng hook.

use crate::common::arc::*;
use crate::common::ev::*;
use crate::common::par;
use crate::common::stack::panic_message;
use rs_opw_kinematics::constraints::Constraints;
use rs_opw_kinematics::verif_hooks;
use serde_json::{json, Value};
use std::f64::consts::PI;
use std::panic::{catch_unwind, AssertUnwindSafe};

const TWO52: f64 = 4503599627370496.0;
static DRAW_PATTERN_DIFFERS: std::sync::atomic::AtomicU64 = std::sync::atomic::AtomicU64::new(0);

/// raw u64 that makes rand 0.9's f64 range sampler see the unit value k / 2^52
fn raw_for_unit(k: u64) -> u64 {
    k << 12
}

fn class(from: f64, to: f64) -> &'static str {
    if from == to {
        "from==to"
    } else if from < to {
        "non-wrapping"
    } else if from - to > 2.0 * PI {
        "wrapping-more-than-a-turn-apart"
    } else if to >= 0.0 {
        "wrapping-both-nonnegative"
    } else if from <= 0.0 {
        "wrapping-both-nonpositive"
    } else {
        "wrapping-straddling-zero"
    }
}

/// Histories: how the constraints under test came to hold the range. 0 = Constraints::new; 1 = from_degrees (whole-degree
/// lattice only); 2.. = an earlier range on every joint, replaced by update_range.
pub const HISTORIES: usize = 8;
fn prior_range(history: usize) -> Option<(f64, f64)> {
    match history {
        2 => Some((-0.1, 0.1)),  // narrow ordinary
        3 => Some((3.0, -3.0)),  // narrow, wrapping through pi
        4 => Some((0.5, 0.5)),   // unconstrained
        5 => Some((-3.0, 3.0)),  // wide
        6 => Some((0.1, -0.1)),  // nearly everything, wrapping
        _ => None,
    }
}

/// Run the real sampler with joint `joint` limited to [from,to] and the scripted unit draw k/2^52 for it.
pub fn eval(joint: usize, from: f64, to: f64, k: u64, history: usize) -> Result<Option<f64>, (String, String)> {
    let mut f = [-1.0; 6];
    let mut t = [1.0; 6];
    f[joint] = from;
    t[joint] = to;
    let c = match (history, prior_range(history)) {
        (7, _) => {
            // an earlier range 0.5 rad wider on either side (same mid-points), narrowed by update_range
            let mut c = Constraints::new(f.map(|x| x - 0.5), t.map(|x| x + 0.5), 0.0);
            c.update_range(f, t);
            c
        }
        (_, Some((pf, pt))) => {
            let mut c = Constraints::new([pf; 6], [pt; 6], 0.0);
            c.update_range(f, t);
            c
        }
        (1, _) => Constraints::from_degrees(std::array::from_fn(|i| f[i].to_degrees()..=t[i].to_degrees()), 0.0),
        _ => Constraints::new(f, t, 0.0),
    };
    let (from, to) = (c.from[joint], c.to[joint]);
    let half = raw_for_unit(1u64 << 51);
    let raw = raw_for_unit(k);
    // a sibling set (same lower limits, upper limits 0.9 rad further on) is sampled on the same thread just before a quarter
    // of the draws: nothing one constraints object computes may be reused by another
    if (k ^ (from.to_bits() >> 7) ^ (to.to_bits() >> 11)) % 4 == 0 {
        let sibling = Constraints::new(c.from, c.to.map(|x| x + 0.9), 0.0);
        verif_hooks::arm_local_script(Box::new(move |_| half));
        let _ = catch_unwind(AssertUnwindSafe(|| sibling.random_angles()));
        let _ = verif_hooks::disarm_local_script();
    }
    // the other five joints (limits -1..1) draw 61/64: 0.906 on their own range, far outside it on any wider one
    let high = raw_for_unit(61u64 << 46);
    verif_hooks::arm_local_script(Box::new(move |i| if i == joint { raw } else { high }));
    let res = catch_unwind(AssertUnwindSafe(|| c.random_angles()));
    let consumed = verif_hooks::disarm_local_script();
    let cls = format!("{}{}", class(from, to), match history { 0 => "", 1 => "/from_degrees", _ => "/after-update_range" });
    let q = match res {
        Ok(q) => q,
        Err(p) => {
            // zero-width reversed ranges (from = to mod 2pi, from > to) are outside the statement
            if from > to && ((from - to) % (2.0 * PI)).abs() < 1e-9 {
                return Ok(None);
            }
            return Err((format!("C18/panic/{cls}"), format!("random_angles panicked: {}", panic_message(&p))));
        }
    };
    if consumed != 6 {
        // the script maps draw i to joint i: with another draw pattern (a sampler that needs no draw for a degenerate
        // range, say) the scripted value did not reach the joint under test; the membership clauses below still apply to
        // whatever was produced, only the "both ends of each piece" argument is not claimed for this case
        DRAW_PATTERN_DIFFERS.fetch_add(1, std::sync::atomic::Ordering::Relaxed);
    }
    // the joints not under test keep to their own ranges whatever the range of the joint under test is
    if consumed == 6 {
        for i in (0..6).filter(|&i| i != joint) {
            if arc_member(c.from[i], c.to[i], q[i], 1e-9) == ArcVerdict::Outside {
                return Err((
                    format!("C18/other-joint-outside/{cls}"),
                    format!("joint {} (limits [{}, {}]) is sampled at {} while joint {} has limits [{from}, {to}]", i + 1, c.from[i], c.to[i], q[i], joint + 1),
                ));
            }
        }
    }
    match arc_member(from, to, q[joint], 1e-9) {
        ArcVerdict::Boundary => Ok(None),
        ArcVerdict::Inside => {
            if !c.compliant(&q) {
                return Err((
                    format!("C18/rejected-by-own-constraints/{cls}"),
                    format!("sample {} for [{from}, {to}] lies on the arc but compliant() rejects {q:?}", q[joint]),
                ));
            }
            Ok(Some(q[joint]))
        }
        ArcVerdict::Outside => Err((
            format!("C18/outside/{cls}"),
            format!("unit draw {}/2^52 gives {} for limits [{from}, {to}], which is off the arc", k, q[joint]),
        )),
    }
}

fn draws(from: f64, to: f64) -> Vec<u64> {
    let mut v = vec![0u64, 1, (1u64 << 52) - 1];
    for i in 1..64u64 {
        v.push(i << 46);
    }
    if from >= to {
        // segment switch point of the two-segment sampler: u* = (2pi - from) / len
        let len = (2.0 * PI - (from - to)).abs();
        if len > 0.0 {
            let u = (2.0 * PI - from) / len;
            if u > 0.0 && u < 1.0 {
                let k = (u * TWO52) as i64;
                for d in [-(1i64 << 22), -1, 0, 1, 1 << 22] {
                    let kk = k + d;
                    if kk >= 0 && kk < (1i64 << 52) {
                        v.push(kk as u64);
                    }
                }
            }
        }
    }
    v
}

fn case_json(joint: usize, from: f64, to: f64, k: u64, history: usize) -> Value {
    json!({"joint": joint, "from": from, "to": to, "unit_numerator": k.to_string(), "unit_denominator": "2^52", "history": history})
}

/// The constraint set as a robot hands it to the planners (Kinematics::constraints()), 6-DOF and 5-DOF, bare and behind a
/// tool: its samples lie on the arcs it reports and are accepted by the set itself.
fn robot_sets(rep: &mut Report, base: u64) {
        use rs_opw_kinematics::kinematic_traits::Kinematics;
        let given_from = [-1.0, -0.5, -2.0, 2.5, -1.0, 0.2];
        let given_to = [1.0, 1.5, 2.0, -2.5, 1.0, 0.6];
        for dof in [6i8, 5] {
            for wrapped in [false, true] {
                let mut p = crate::common::robots::make(0.1, -0.1, 0.0, [0.6, 0.7, 0.75, 0.09], [1; 6], [0.0; 6], 6);
                p.dof = dof;
                let core = rs_opw_kinematics::kinematics_impl::OPWKinematics::new_with_constraints(p, Constraints::new(given_from, given_to, 0.0));
                let robot: std::sync::Arc<dyn Kinematics> = if wrapped {
                    std::sync::Arc::new(rs_opw_kinematics::tool::Tool { robot: std::sync::Arc::new(core), tool: nalgebra::Isometry3::translation(0.0, 0.0, 0.1) })
                } else {
                    std::sync::Arc::new(core)
                };
                let Some(set) = robot.constraints().as_ref().copied() else { continue };
                for unit in [0u64, 1, 7, 19, 32, 45, 61, 63] {
                    let raw = raw_for_unit(unit << 46);
                    verif_hooks::arm_local_script(Box::new(move |_| raw));
                    let res = catch_unwind(AssertUnwindSafe(|| set.random_angles()));
                    let _ = verif_hooks::disarm_local_script();
                    rep.states += 1;
                    rep.transitions += 1;
                    let case = json!({"kind": "robot-set", "dof": dof, "wrapped": wrapped, "unit": unit});
                    let case_no = base + unit + 100 * (dof as u64) + if wrapped { 1000 } else { 0 };
                    match res {
                        Err(pn) => rep.fail(format!("C18/robot-set/panic/dof{dof}"), case_no, case, format!("random_angles panicked: {}", panic_message(&pn))),
                        Ok(q) => {
                            // judged on the limits the handed-out set reports (a robot may legitimately hold other limits than
                            // it was given, as long as the set is consistent with itself)
                            if arc_member6(&set.from, &set.to, &q, 1e-9) == ArcVerdict::Outside {
                                rep.fail(format!("C18/robot-set/outside-reported-limits/dof{dof}"), case_no, case, format!("sample {q:?} violates the limits the set reports: from {:?} to {:?}", set.from, set.to));
                            } else if arc_member6(&set.from, &set.to, &q, 1e-9) == ArcVerdict::Inside && !set.compliant(&q) {
                                rep.fail(format!("C18/robot-set/rejected-by-own-constraints/dof{dof}"), case_no, case, format!("sample {q:?} is rejected by the set that produced it"));
                            } else {
                                rep.sig(format!("robot-set:dof{dof}:accepted"));
                            }
                        }
                    }
                }
            }
        }
}

pub fn run(ctx: &Ctx) -> Report {
    let step_deg: i64 = if ctx.quick() { 5 } else { 1 };
    let lo = -360 / step_deg;
    let span = (720 / step_deg + 1) as usize;
    let sizes = [span, span];
    let n = par::product(&sizes);
    let mut rep = par::run(n, |idx, r| {
        let mut ix = [0usize; 2];
        par::decode(idx, &sizes, &mut ix);
        let from = (((lo + ix[0] as i64) * step_deg) as f64).to_radians();
        let to = (((lo + ix[1] as i64) * step_deg) as f64).to_radians();
        let joint = (ix[0] + 2 * ix[1]) % 6;
        r.states += 1;
        for history in 0..HISTORIES {
            // quick tier: every range through new, the other histories rotate over the lattice
            if step_deg > 1 && history > 0 && (idx as usize + history) % 3 != 0 {
                continue;
            }
            for k in draws(from, to) {
                r.transitions += 1;
                match eval(joint, from, to, k, history) {
                    Ok(None) => r.skipped_boundary += 1,
                    Ok(Some(_)) => r.sig(format!("{}:h{}:accepted", class(from, to), history)),
                    Err((key, d)) => r.fail(key, idx, case_json(joint, from, to, k, history), d),
                }
            }
        }
        if idx % 397 == 0 {
            r.sample(|| case_json(joint, from, to, 1u64 << 51, 0));
        }
    });
    // --- threshold sweep: ranges that are almost empty / almost a full turn / written with zeros of either sign
    {
        let lad: Vec<f64> = crate::common::ladder::ladder(&["constraints.rs"]).into_iter().filter(|d| *d >= 1e-8).collect();
        let mut ranges: Vec<(f64, f64)> = vec![(-0.0, 0.0), (0.0, -0.0)];
        for &d in &lad {
            for base in [0.0f64, 0.6, -PI, 2.9] {
                ranges.push((base, base + d));
                ranges.push((base + d, base));
                ranges.push((base - PI + d, base + PI - d));
            }
        }
        let sizes2 = [ranges.len(), 3];
        let n2 = par::product(&sizes2);
        let srep = par::run(n2, |idx, r| {
            let mut ix = [0usize; 2];
            par::decode(idx, &sizes2, &mut ix);
            let (from, to) = ranges[ix[0]];
            let history = [0usize, 2, 5][ix[1]];
            let joint = ix[0] % 6;
            r.states += 1;
            for k in draws(from, to) {
                r.transitions += 1;
                match eval(joint, from, to, k, history) {
                    Ok(None) => r.skipped_boundary += 1,
                    Ok(Some(_)) => r.sig(format!("special:{}:h{}:accepted", class(from, to), history)),
                    Err((key, d)) => r.fail(format!("{key}/special-range"), n + idx, case_json(joint, from, to, k, history), d),
                }
            }
        });
        rep.merge(srep);
        rep.set("special_ranges", json!({"ranges": ranges.len(), "ladder_values": lad.len()}));
    }
    robot_sets(&mut rep, n + 50_000_000);
    let odd = DRAW_PATTERN_DIFFERS.load(std::sync::atomic::Ordering::Relaxed);
    rep.set("calls_with_another_draw_pattern", json!(odd));
    if odd * 2 > rep.transitions && rep.fails.is_empty() {
        rep.machinery_errors.push(format!("the sampler consumed other than 6 raw draws in {odd} of {} calls: the scripted-draw alphabet no longer reaches the joints", rep.transitions));
    }
    rep.traces_validated = rep.transitions;
    rep.rule = format!(
        "(from,to) on the {step_deg}-degree lattice of [-360,360]^2 (one joint at a time) x scripted unit draws {{0, 2^-52, i/64, 1-2^-52, \
         segment switch point +-{{2^-52, 2^-30}}}} x histories {{new, from_degrees, update_range over a narrow / narrow wrapping / unconstrained / wide / nearly-full / symmetric wider earlier range}}, a sibling set with the same lower limits sampled just before a quarter of the draws fed to the real sampler through the ScriptedRng hook; the sampler is piecewise linear in the \
         draw with one breakpoint, so both ends and both sides of the breakpoint decide each piece; oracle = arc membership (and the library's \
         own compliant()); results within 1e-9 of an arc end are skipped_boundary; plus ranges of every ladder width (almost empty, almost a full turn both ways) and signed zeros; the other five joints draw 61/64 and must stay on their own ranges; the sets handed out by 6-DOF and 5-DOF robots (bare, behind a tool) are sampled too; signature = (range class, accepted)"
    );
    rep.set("axes", json!({"step_deg": step_deg, "from_values": span, "to_values": span, "draws_per_range": "66 + up to 5 around the breakpoint"}));
    rep.assumptions.push("rand 0.9 maps a raw u64 r to the unit value (r >> 12) / 2^52 (checked: the script must be consumed exactly once per joint)".into());
    rep
}

pub fn replay(case: &Value) -> Vec<String> {
    if case["kind"] == "robot-set" {
        let mut rep = Report::new();
        robot_sets(&mut rep, 0);
        return rep.fails.iter().map(|f| format!("{}: {}", f.key, f.detail)).collect();
    }
    let k: u64 = case["unit_numerator"].as_str().unwrap().parse().unwrap();
    match eval(case["joint"].as_u64().unwrap() as usize, as_num(&case["from"]), as_num(&case["to"]), k, case["history"].as_u64().unwrap_or(0) as usize) {
        Err((k, d)) => vec![format!("{k}: {d}")],
        _ => vec![],
    }
}
