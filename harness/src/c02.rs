//! C02 — inverse kinematics is complete away from singularities; the answer set is closed.

use crate::c01::user_joints;
use crate::common::ev::*;
use crate::common::fkref;
use crate::common::m3::*;
use crate::common::par;
use crate::common::robots::*;
use rs_opw_kinematics::kinematic_traits::{Joints, Kinematics};
use rs_opw_kinematics::kinematics_impl::OPWKinematics;
use rs_opw_kinematics::parameters::opw_kinematics::Parameters;
use serde_json::{json, Value};
use std::f64::consts::PI;

const MATCH_TOL: f64 = 1e-6;
const DUP_TOL: f64 = 1e-9;
const SIN_MARGIN: f64 = 1e-3;

/// Oracle: number of arm branches (shoulder x elbow) that reach the wrist centre of `pose`,
/// or None when some branch is within the singularity / reach-boundary margins.
pub fn expected_branches(p: &Parameters, pose: &Iso) -> Option<usize> {
    let c = sub(pose.t, scale(pose.z_axis(), p.c4));
    let rho2 = c[0] * c[0] + c[1] * c[1] - p.b * p.b;
    if rho2 < SIN_MARGIN * SIN_MARGIN {
        return None; // shoulder singularity margin
    }
    let rho = rho2.sqrt();
    let k = (p.a2 * p.a2 + p.c3 * p.c3).sqrt();
    let pz = c[2] - p.c1;
    let mut n = 0;
    for sx in [1.0, -1.0] {
        let px = sx * rho - p.a1;
        let d2 = px * px + pz * pz;
        let cos_e = (d2 - p.c2 * p.c2 - k * k) / (2.0 * p.c2 * k);
        if cos_e.abs() < 1.0 - 1e-6 {
            n += 2;
        } else if cos_e.abs() > 1.0 + 1e-6 {
            // this shoulder configuration cannot reach
        } else {
            return None; // on the reach boundary / stretched elbow
        }
    }
    // wrist of every reachable arm branch must be away from its singularity
    for arm in fkref::arm_ik(p, c) {
        let r_arm = mmul(&mmul(&rotz(arm[0]), &roty(arm[1])), &roty(arm[2]));
        let rw = mmul(&transpose(&r_arm), &pose.r);
        if rw[2][2].abs() > 1.0 - 1e-6 {
            return None;
        }
    }
    Some(n)
}

fn contains(set: &[Joints], q: &Joints, tol: f64) -> bool {
    set.iter().any(|s| joints_close_mod2pi(s, q, tol))
}

pub fn eval(p: &Parameters, q: &Joints) -> Result<(Vec<(String, String)>, usize), &'static str> {
    let pose = fkref::fk(p, q);
    let Some(n_arm) = expected_branches(p, &pose) else {
        return Err("margin");
    };
    let th = fkref::internal_angles(p, q);
    if th[4].sin().abs() <= SIN_MARGIN {
        return Err("margin");
    }
    let mut fails = Vec::new();
    let robot = OPWKinematics::new(*p);
    // a sibling robot (other J1 sign, longer upper arm, shifted J4 zero) living on the same thread; it is asked for the
    // bit-identical pose *before* the robot under test sees that pose for the first time, and once more later on
    let sibling = {
        let mut sp = *p;
        sp.sign_corrections[0] = -sp.sign_corrections[0];
        sp.c2 *= 1.1;
        sp.offsets[3] += 0.3;
        OPWKinematics::new(sp)
    };
    let _ = sibling.inverse(&to_na(&pose));
    let sols = robot.inverse(&to_na(&pose));
    if !contains(&sols, q, MATCH_TOL) {
        fails.push((
            "C02/originating-missing".to_string(),
            format!("inverse(FK(q)) with {} answers does not contain q", sols.len()),
        ));
    }
    // the same pose written with the other unit quaternion (q and -q are one rotation): same answer set size, q among them
    {
        let mut neg = to_na(&pose);
        neg.rotation = nalgebra::UnitQuaternion::new_unchecked(-neg.rotation.into_inner());
        let sols_neg = robot.inverse(&neg);
        if sols_neg.len() != sols.len() || !contains(&sols_neg, q, MATCH_TOL) {
            fails.push((
                "C02/depends-on-quaternion-sign".to_string(),
                format!("{} answers for the pose, {} for the same pose with the quaternion negated (q present: {})", sols.len(), sols_neg.len(), contains(&sols_neg, q, MATCH_TOL)),
            ));
        }
    }
    // history: the sibling is asked again, then the robot under test: its answer must not have changed (nothing one
    // instance computes may reach another)
    {
        let _ = sibling.inverse(&to_na(&pose));
        let after = robot.inverse(&to_na(&pose));
        let same = after.len() == sols.len() && after.iter().zip(sols.iter()).all(|(a, b)| (0..6).all(|i| a[i].to_bits() == b[i].to_bits()));
        if !same {
            fails.push((
                "C02/depends-on-other-robots-history".to_string(),
                format!("after another robot solved the same pose the answers are {after:?}, before {sols:?}"),
            ));
        }
    }
    // the robot wearing a tool with an offset and a tilt, on a turned and shifted base: the pose this stack produces for q
    // has as many answers, q among them
    {
        let tool = Iso::new(mmul(&roty(0.5), &rotz(-0.4)), [0.05, -0.02, 0.2]);
        let base = Iso::new(mmul(&rotx(0.3), &rotz(0.9)), [0.3, -0.2, 0.15]);
        let stack = rs_opw_kinematics::tool::Tool {
            robot: std::sync::Arc::new(rs_opw_kinematics::tool::Base { robot: std::sync::Arc::new(OPWKinematics::new(*p)), base: to_na(&base) }),
            tool: to_na(&tool),
        };
        let worn = base.mul(&pose).mul(&tool);
        let got = stack.inverse(&to_na(&worn));
        if got.len() != sols.len() || !contains(&got, q, MATCH_TOL) {
            fails.push((
                "C02/through-tool-and-base".to_string(),
                format!("{} answers for the bare robot, {} behind base and tool (q present: {})", sols.len(), got.len(), contains(&got, q, MATCH_TOL)),
            ));
        }
    }
    if sols.len() != 2 * n_arm {
        fails.push((
            format!("C02/branch-count/expected{}", 2 * n_arm),
            format!("{} answers, geometry admits {} arm branches x 2 wrist branches", sols.len(), n_arm),
        ));
    }
    for (i, s) in sols.iter().enumerate() {
        let twin = [s[0], s[1], s[2], s[3] + p.sign_corrections[3] as f64 * PI, 0.0, s[5] - p.sign_corrections[5] as f64 * PI];
        // wrist flip in internal angles: (t4 + pi, -t5, t6 - pi); map through sign/offset of J5
        let t5 = s[4] * p.sign_corrections[4] as f64 - p.offsets[4];
        let mut twin = twin;
        twin[4] = (-t5 + p.offsets[4]) * p.sign_corrections[4] as f64;
        if !contains(&sols, &twin, MATCH_TOL) {
            fails.push(("C02/twin-missing".to_string(), format!("wrist-flipped twin of answer {i} {s:?} is absent")));
        }
        for (j, o) in sols.iter().enumerate() {
            if j > i && joints_close_mod2pi(s, o, DUP_TOL) {
                fails.push(("C02/duplicate".to_string(), format!("answers {i} and {j} coincide: {s:?}")));
            }
        }
        let again = robot.inverse(&to_na(&fkref::fk(p, s)));
        if again.len() != sols.len() {
            fails.push((
                "C02/not-closed".to_string(),
                format!("pose of answer {i} has {} answers, the original pose {}", again.len(), sols.len()),
            ));
        }
    }
    Ok((fails, sols.len()))
}

fn theta_axes(thorough: bool) -> [Vec<f64>; 6] {
    if !thorough {
        [
            vec![0.0, 0.7, -2.4, 3.0, 1.9],
            vec![-0.9, 0.2, 1.3, 2.5, -2.2],
            vec![-1.9, 0.8, 0.1, 2.6, -0.7],
            vec![0.0, 1.1, -3.0, 2.0],
            vec![0.6, -1.2, 2.2, -0.05, 0.01, 3.0],
            vec![0.0, 2.5, -1.0],
        ]
    } else {
        [
            vec![0.0, 0.7, -2.4, 3.0, 1.9, -PI + 0.01],
            vec![-0.9, 0.2, 1.3, 2.5, -2.2, 3.0],
            vec![-1.9, 0.8, 0.1, 2.6, -0.7, -2.8],
            vec![0.0, 1.1, -3.0, 2.0, -1.3],
            vec![0.6, -1.2, 2.2, -0.05, 0.01, 3.0, -2.6],
            vec![0.0, 2.5, -1.0],
        ]
    }
}

fn case_json(p: &Parameters, q: &Joints) -> Value {
    json!({"params": params_json(p), "joints": nums(q)})
}

pub fn run(ctx: &Ctx) -> Report {
    let thorough = !ctx.quick();
    let robots = robot_axis(if thorough { 1 } else { 0 }, &[6]);
    let ax = theta_axes(thorough);
    let sizes: Vec<usize> = std::iter::once(robots.len()).chain(ax.iter().map(|a| a.len())).collect();
    let n = par::product(&sizes);
    let mut rep = par::run(n, |idx, r| {
        let mut ix = [0usize; 7];
        par::decode(idx, &sizes, &mut ix);
        let p = &robots[ix[0]];
        let th = [ax[0][ix[1]], ax[1][ix[2]], ax[2][ix[3]], ax[3][ix[4]], ax[4][ix[5]], ax[5][ix[6]]];
        let q = user_joints(p, &th);
        match eval(p, &q) {
            Err(_) => r.skipped_precondition += 1,
            Ok((fails, nsol)) => {
                r.states += 1;
                r.transitions += 1 + nsol as u64;
                r.sig(format!("answers={nsol}"));
                if idx % 200_003 == 0 {
                    r.sample(|| case_json(p, &q));
                }
                for (k, d) in fails {
                    r.fail(k, idx, case_json(p, &q), d);
                }
            }
        }
    });
    // --- threshold sweep: robots whose a1 / a2 / b / c4 is almost, but not exactly, zero
    let lad = crate::common::ladder::ladder(&["kinematics_impl.rs"]);
    let lad: Vec<f64> = if thorough { lad } else { lad.into_iter().step_by(2).collect() };
    let trobots = tiny_param_robots(&lad, &[6]);
    let postures: [[f64; 6]; 4] = [[0.3, 0.4, -0.2, 0.7, 0.9, 1.1], [-2.4, -0.9, 0.8, -1.3, -1.2, -2.5], [2.8, -0.9, 0.25, -0.7, -1.1, 0.4], [1.2, 0.5, -1.9, 3.0, 2.2, 0.0]];
    let tsizes = [trobots.len(), postures.len()];
    let tn = par::product(&tsizes);
    let trep = par::run(tn, |idx, r| {
        let mut ix = [0usize; 2];
        par::decode(idx, &tsizes, &mut ix);
        let p = &trobots[ix[0]];
        let q = user_joints(p, &postures[ix[1]]);
        match eval(p, &q) {
            Err(_) => r.skipped_precondition += 1,
            Ok((fails, nsol)) => {
                r.states += 1;
                r.transitions += 1 + nsol as u64;
                r.sig(format!("tiny-parameter:answers={nsol}"));
                for (k, d) in fails {
                    r.fail(format!("{k}/tiny-parameter"), n + idx, case_json(p, &q), d);
                }
            }
        }
    });
    rep.merge(trep);
    rep.set("threshold_sweep", json!({"tiny_parameter_robots": trobots.len(), "postures": postures.len(), "ladder_values": lad.len()}));
    rep.traces_validated = rep.states;
    if !(rep.signatures.contains("answers=8") && rep.signatures.contains("answers=4")) && rep.fails.is_empty() {
        rep.machinery_errors.push("lattice did not produce both 4- and 8-answer poses".into());
    }
    if rep.states * 2 < rep.skipped_precondition {
        rep.machinery_errors.push("more than two thirds of the lattice fell inside the singularity margins".into());
    }
    rep.rule = "robots R (dof 6) x theta lattice; points whose pose has any arm branch within the oracle margins \
                (|sin t5|<=1e-3, elbow/reach boundary 1e-6 in cos, shoulder 1 mm) are skipped_precondition; oracle: \
                q in inverse(FK_ref(q)), |answers| = 2 x reachable arm branches (independent arm IK), twins present, \
                no duplicates, same size for the pose of every answer and for the same pose with the quaternion negated, answers bit-identical after a sibling robot solved the same pose on the same thread, and the same count with q present behind a tilted, offset tool on a turned, shifted base; threshold sweep: robots with a1 / a2 / b / c4 = +- each ladder magnitude x 4 postures; signature = number of answers".into();
    rep.set("axes", json!({"robots": robots.len(), "theta_axis_sizes": ax.iter().map(|a| a.len()).collect::<Vec<_>>() }));
    rep.set("tolerances", json!({"match_mod_2pi": MATCH_TOL, "duplicate": DUP_TOL, "sin_margin": SIN_MARGIN}));
    rep.assumptions.push("lattice-relative: values outside the printed axes are not covered".into());
    rep
}

pub fn replay(case: &Value) -> Vec<String> {
    let p = params_from_json(&case["params"]);
    let q = as_arr6(&case["joints"]);
    match eval(&p, &q) {
        Err(_) => vec![],
        Ok((f, _)) => f.into_iter().map(|(k, d)| format!("{k}: {d}")).collect(),
    }
}
