//! C17 — a frame from three point pairs is the rigid motion mapping them; forward_transformed.

use crate::c01::{user_joints, ANG_TOL, POS_TOL};
use crate::common::ev::*;
use crate::common::fkref;
use crate::common::m3::*;
use crate::common::par;
use crate::common::robots::*;
use crate::common::stack::*;
use nalgebra::Point3;
use rs_opw_kinematics::frame::{ColinearPoints, Frame, NotIsometry};
use rs_opw_kinematics::kinematics_impl::OPWKinematics;
use serde_json::{json, Value};
use std::f64::consts::PI;
use std::panic::{catch_unwind, AssertUnwindSafe};
use std::sync::Arc;

fn pt(v: V3) -> Point3<f64> {
    Point3::new(v[0], v[1], v[2])
}

#[derive(Debug, PartialEq)]
enum Outcome {
    Ok(Iso),
    NotIsometry,
    Colinear(bool),
    OtherError(String),
    Panic(String),
}

fn build_frame(p: &[V3; 3], q: &[V3; 3]) -> Outcome {
    let r = catch_unwind(AssertUnwindSafe(|| Frame::frame(pt(p[0]), pt(p[1]), pt(p[2]), pt(q[0]), pt(q[1]), pt(q[2]))));
    match r {
        Err(e) => Outcome::Panic(panic_message(&e)),
        Ok(Ok(f)) => Outcome::Ok(from_na(&f)),
        Ok(Err(e)) => {
            if e.downcast_ref::<NotIsometry>().is_some() {
                Outcome::NotIsometry
            } else if let Some(c) = e.downcast_ref::<ColinearPoints>() {
                Outcome::Colinear(c.source)
            } else {
                Outcome::OtherError(e.to_string())
            }
        }
    }
}

pub fn eval_motion(p: &[V3; 3], motion: &Iso, which: usize, delta: f64) -> (Vec<(String, String)>, String) {
    let mut fails = Vec::new();
    let mut q = [motion.apply(p[0]), motion.apply(p[1]), motion.apply(p[2])];
    if delta != 0.0 {
        // move one image point along an edge leaving it
        let other = (which + 1) % 3;
        let dir = normalize(sub(q[which], q[other]));
        q[which] = add(q[which], scale(dir, delta));
    }
    let scale_p = 1.0 + p.iter().chain(q.iter()).map(|v| norm(*v)).fold(0.0, f64::max);
    let out = build_frame(p, &q);
    let cls = if delta == 0.0 {
        "exact"
    } else if delta.abs() < 0.005 {
        "within-tolerance"
    } else {
        "beyond-tolerance"
    };
    match (&out, cls) {
        (Outcome::Panic(m), _) => fails.push((format!("C17/panic/{cls}"), m.clone())),
        (Outcome::Ok(f), "exact") => {
            // rounding of the image points (1e-16 relative) is amplified by 1/height for a nearly collinear triple
            let h0 = norm(cross(sub(p[1], p[0]), sub(p[2], p[0]))) / norm(sub(p[1], p[0]));
            for i in 0..3 {
                let e = dist(f.apply(p[i]), q[i]);
                if !(e <= 1e-9 * scale_p * (1.0 + 1e-6 / h0)) {
                    fails.push(("C17/does-not-map-points".to_string(), format!("point {} is mapped {e:e} m away from its image", i + 1)));
                    break;
                }
            }
            if orthonormality_defect(&f.r) > 1e-12 || !f.is_finite() {
                fails.push(("C17/not-a-proper-rotation".to_string(), "rotation part is not orthonormal with det +1".into()));
            }
            let (dp, da) = pose_dist(f, motion);
            // conditioning: the triangle's height limits how well the rotation is determined
            let h = norm(cross(sub(p[1], p[0]), sub(p[2], p[0]))) / norm(sub(p[1], p[0]));
            let ang_tol = 1e-12 * scale_p / h.min(1.0) + 1e-12;
            if !(da <= ang_tol) || !(dp <= ang_tol * scale_p + 1e-9 * scale_p) {
                fails.push((
                    "C17/not-the-generating-motion".to_string(),
                    format!("frame differs from the generating rigid motion by {dp:e} m, {da:e} rad"),
                ));
            }
        }
        (Outcome::Ok(f), "within-tolerance") => {
            if orthonormality_defect(&f.r) > 1e-12 || !f.is_finite() {
                fails.push(("C17/not-a-proper-rotation".to_string(), "rotation part is not orthonormal with det +1 (perturbed input)".into()));
            }
            for i in 0..3 {
                let e = dist(f.apply(p[i]), q[i]);
                let h = norm(cross(sub(p[1], p[0]), sub(p[2], p[0]))) / norm(sub(p[1], p[0]));
                if !(e <= 3.0 * delta.abs() * (1.0 + 1.0 / h.min(1.0)) + 1e-9 * scale_p) {
                    fails.push(("C17/perturbed-images-far".to_string(), format!("point {} is mapped {e:e} m from its image for a {delta} m perturbation", i + 1)));
                    break;
                }
            }
        }
        (Outcome::NotIsometry, "beyond-tolerance") => {}
        (o, "beyond-tolerance") => fails.push((
            "C17/non-congruent-accepted".to_string(),
            format!("image triangle differs by {delta} m (> 5 mm) but the result is {o:?}"),
        )),
        (o, _) => fails.push((format!("C17/congruent-rejected/{cls}"), format!("a congruent triple ({delta} m) gave {o:?}"))),
    }
    let sig = match out {
        Outcome::Ok(_) => "ok",
        Outcome::NotIsometry => "not-isometry",
        Outcome::Colinear(true) => "colinear-source",
        Outcome::Colinear(false) => "colinear-target",
        _ => "other",
    };
    (fails, format!("{cls}:{sig}"))
}

/// Two image points moved apart (delta > 0) or together along the edge joining them, by `delta` each: the side between
/// them changes by 2*delta while each point moves by delta only. Classified by the largest change of a side length.
pub fn eval_pair(p: &[V3; 3], motion: &Iso, i: usize, j: usize, delta: f64) -> (Vec<(String, String)>, String) {
    let mut fails = Vec::new();
    let mut q = [motion.apply(p[0]), motion.apply(p[1]), motion.apply(p[2])];
    let dir = normalize(sub(q[i], q[j]));
    q[i] = add(q[i], scale(dir, delta));
    q[j] = sub(q[j], scale(dir, delta));
    let side = |t: &[V3; 3], a: usize, b: usize| dist(t[a], t[b]);
    let worst = [(0, 1), (0, 2), (1, 2)].iter().map(|&(a, b)| (side(p, a, b) - side(&q, a, b)).abs()).fold(0.0, f64::max);
    let cls = if worst < 0.005 - 1e-6 {
        "pair-within-tolerance"
    } else if worst > 0.005 + 1e-6 {
        "pair-beyond-tolerance"
    } else {
        return (fails, "pair-on-the-edge:skipped".into());
    };
    let out = build_frame(p, &q);
    match (&out, cls) {
        (Outcome::Panic(m), _) => fails.push((format!("C17/panic/{cls}"), m.clone())),
        (Outcome::Ok(f), "pair-within-tolerance") => {
            if orthonormality_defect(&f.r) > 1e-12 || !f.is_finite() {
                fails.push(("C17/not-a-proper-rotation".to_string(), "rotation part is not orthonormal with det +1 (two image points perturbed)".into()));
            }
        }
        (Outcome::NotIsometry, "pair-beyond-tolerance") => {}
        (o, "pair-beyond-tolerance") => fails.push((
            "C17/non-congruent-accepted/pair".to_string(),
            format!("a side of the image triangle differs by {worst} m (> 5 mm) although each point moved by {delta} m only; result {o:?}"),
        )),
        (o, _) => fails.push((format!("C17/congruent-rejected/{cls}"), format!("sides agree within {worst} m but the result is {o:?}"))),
    }
    let sig = match out {
        Outcome::Ok(_) => "ok",
        Outcome::NotIsometry => "not-isometry",
        _ => "other",
    };
    (fails, format!("{cls}:{sig}"))
}

fn eval_degenerate(kind: usize) -> (Vec<(String, String)>, String) {
    let mut fails = Vec::new();
    let (p, q, want): ([V3; 3], [V3; 3], Outcome) = match kind {
        0 => ([[0.0, 0.0, 0.0], [1.0, 0.0, 0.0], [2.0, 0.0, 0.0]], [[0.0, 1.0, 0.0], [0.0, 2.0, 0.0], [0.0, 3.0, 0.0]], Outcome::Colinear(true)),
        1 => ([[1.0, 1.0, 1.0], [2.0, 2.0, 2.0], [4.0, 4.0, 4.0]], [[1.0, 1.0, 1.0], [2.0, 2.0, 2.0], [4.0, 4.0, 4.0]], Outcome::Colinear(true)),
        2 => (
            // thin source triangle, collinear images at matching (within 5 mm) distances
            [[0.0, 0.0, 0.0], [1.0, 0.0, 0.0], [0.5, 0.01, 0.0]],
            [[3.0, 0.0, 0.0], [4.0, 0.0, 0.0], [3.5, 0.0, 0.0]],
            Outcome::Colinear(false),
        ),
        3 => ([[0.0, 0.0, 0.0], [0.0, 0.0, 0.0], [1.0, 0.0, 0.0]], [[5.0, 0.0, 0.0], [5.0, 0.0, 0.0], [6.0, 0.0, 0.0]], Outcome::Colinear(true)),
        4 => (
            [[0.0, 0.0, 0.0], [1.0, 0.0, 0.0], [0.0, 1.0, 0.0]],
            [[0.0, 0.0, 0.0], [2.0, 0.0, 0.0], [0.0, 2.0, 0.0]], // scaled, not an isometry
            Outcome::NotIsometry,
        ),
        _ => (
            [[0.0, 0.0, 0.0], [1.0, 0.0, 0.0], [0.0, 1.0, 0.0]],
            [[0.0, 0.0, 0.0], [1.0, 0.0, 0.0], [0.0, 1.0075, 0.0]],
            Outcome::NotIsometry,
        ),
    };
    let got = build_frame(&p, &q);
    if got != want {
        fails.push((format!("C17/degenerate-{kind}"), format!("expected {want:?}, got {got:?}")));
    }
    (fails, format!("degenerate:{want:?}"))
}

fn eval_forward_transformed(ri: usize, ti: usize, mi: usize) -> (Vec<(String, String)>, String) {
    let (mut fails, sig) = eval_forward_transformed_prev(ri, ti, mi, 0);
    for pv in 1..7 {
        fails.extend(eval_forward_transformed_prev(ri, ti, mi, pv).0);
    }
    (fails, sig)
}

/// prev_variant: 0 = qs with J4 nudged, 1 = CONSTRAINT_CENTERED on an unconstrained robot (zeros),
/// 2 = CONSTRAINT_CENTERED on a constrained robot (its centres), 3 = a vector far from qs,
/// 4 = as 0 with the frame over a robot that carries a tool (offset and tilt), 5 = as 0 over base > tool, 6 = as 0 over another frame (turned and shifted) over the bare robot
fn eval_forward_transformed_prev(ri: usize, ti: usize, mi: usize, prev_variant: usize) -> (Vec<(String, String)>, String) {
    let mut fails = Vec::new();
    let robots = robot_axis(0, &[6]);
    let p = robots[ri % robots.len()];
    let thetas = [[0.4, -0.9, -1.9, 0.3, 0.6, 0.2], [-2.4, 0.5, 0.8, -1.3, -1.2, 2.5], [0.7, 0.2, 0.1, 2.6, 0.4, -2.4]];
    let q = user_joints(&p, &thetas[ti % 3]);
    let motions = [Iso::trans(0.01, 0.0, 0.0), Iso::new(rotz(0.05), [0.02, -0.01, 0.0]), Iso::new(rot_axis([1.0, 2.0, -1.0], 0.03), [0.0, 0.0, 0.015])];
    let m = motions[mi % 3];
    let limits = rs_opw_kinematics::constraints::Constraints::new([-1.0, -3.0, -3.0, -0.5, -3.0, -5.5], [4.5, 3.0, 3.0, 5.5, 3.0, 0.5], 0.0);
    let robot = if prev_variant == 2 { OPWKinematics::new_with_constraints(p, limits) } else { OPWKinematics::new(p) };
    // the robot under the frame: bare, or (variants 4, 5) wearing a tool with an offset and a tilt, on a turned and shifted base
    let tool = Iso::new(mmul(&roty(0.4), &rotz(-0.3)), [0.03, -0.02, 0.12]);
    let base = Iso::new(rotz(0.7), [0.2, 0.1, 0.05]);
    let inner: Arc<dyn rs_opw_kinematics::kinematic_traits::Kinematics> = match prev_variant {
        4 => Arc::new(rs_opw_kinematics::tool::Tool { robot: Arc::new(robot), tool: to_na(&tool) }),
        5 => Arc::new(rs_opw_kinematics::tool::Tool { robot: Arc::new(rs_opw_kinematics::tool::Base { robot: Arc::new(robot), base: to_na(&base) }), tool: to_na(&tool) }),
        6 => Arc::new(Frame { robot: Arc::new(robot), frame: to_na(&base) }),
        _ => Arc::new(robot),
    };
    let stack_fk = |j: &rs_opw_kinematics::kinematic_traits::Joints| -> Iso {
        match prev_variant {
            4 => fkref::fk(&p, j).mul(&tool),
            5 => base.mul(&fkref::fk(&p, j)).mul(&tool),
            // a frame post-multiplies the pose of the robot it wraps
            6 => fkref::fk(&p, j).mul(&base),
            _ => fkref::fk(&p, j),
        }
    };
    let framed = Frame { robot: inner, frame: to_na(&m) };
    let mut prev = q;
    prev[3] += 0.1;
    let mut reference = prev;
    match prev_variant {
        1 => {
            prev = rs_opw_kinematics::kinematic_traits::CONSTRAINT_CENTERED;
            reference = [0.0; 6];
        }
        2 => {
            prev = rs_opw_kinematics::kinematic_traits::CONSTRAINT_CENTERED;
            reference = limits.centers;
        }
        3 => {
            prev = [q[0] + 0.3, q[1], q[2], q[3] - 2.9, -q[4], q[5] + 2.7];
            reference = prev;
        }
        _ => {}
    }
    // a frame over an unrelated robot is asked about the very same joints on the same thread first: nothing may carry over
    {
        let other = Frame { robot: Arc::new(OPWKinematics::new(make(0.07, 0.03, -0.02, [0.33, 0.41, 0.39, 0.06], [-1, 1, 1, -1, 1, -1], [0.1, -0.2, 0.3, 0.0, 0.5, -0.4], 6))), frame: to_na(&motions[(mi + 1) % 3]) };
        let _ = other.forward_transformed(&q, &prev);
    }
    let (sols, pose) = framed.forward_transformed(&q, &prev);
    let want = m.mul(&stack_fk(&q));
    let (dp, da) = pose_dist(&from_na(&pose), &want);
    if !(dp <= 1e-9 && da <= 1e-9) {
        fails.push(("C17/forward_transformed/pose".to_string(), format!("returned pose differs from frame*forward(q) by {dp:e} m, {da:e} rad")));
    }
    let mut last = f64::NEG_INFINITY;
    for s in &sols {
        let (dp, da) = pose_dist(&stack_fk(s), &want);
        if !(dp <= POS_TOL && da <= ANG_TOL) {
            fails.push(("C17/forward_transformed/answer-unsound".to_string(), format!("answer {s:?} misses the frame-moved pose by {dp:e} m, {da:e} rad")));
            break;
        }
        let cost: f64 = (0..6).map(|i| (s[i] - reference[i]).abs()).sum();
        if cost < last - 1e-12 * (1.0 + last.abs()) {
            fails.push((format!("C17/forward_transformed/order/prev-variant{prev_variant}"), format!("answers not ordered by closeness to the given previous / its documented stand-in ({cost} after {last})")));
            break;
        }
        last = cost;
    }
    (fails, format!("forward_transformed:n{}", sols.len()))
}

fn triangles() -> Vec<[V3; 3]> {
    vec![
        [[0.0, 0.0, 0.0], [1.0, 0.0, 0.0], [0.0, 1.0, 0.0]],
        [[0.2, -0.3, 0.1], [1.5, 0.4, -0.2], [-0.3, 1.1, 0.9]],
        [[0.0, 0.0, 0.0], [1.0, 0.0, 0.0], [0.4, 1e-3, 0.0]],
        [[10.0, 10.0, 10.0], [11.0, 10.2, 9.9], [10.1, 11.3, 10.4]],
        [[1000.0, -1000.0, 500.0], [1001.0, -1000.5, 500.2], [999.7, -999.0, 500.9]],
    ]
}

fn motions() -> Vec<Iso> {
    let axes = [[1.0, 0.0, 0.0], [0.0, 1.0, 0.0], [0.0, 0.0, 1.0], [1.0, -2.0, 0.5]];
    let angles = [0.0, 30.0f64.to_radians(), 90.0f64.to_radians(), 179.0f64.to_radians(), PI, -120.0f64.to_radians()];
    let ts = [[0.0, 0.0, 0.0], [1.0, 2.0, 0.0], [-100.0, 3.0, 7.0]];
    let mut v = Vec::new();
    for a in axes {
        for ang in angles {
            for t in ts {
                v.push(Iso::new(rot_axis(a, ang), t));
            }
        }
    }
    v
}

const DELTAS: [f64; 13] = [0.0, 0.001, -0.001, 0.004, -0.004, 0.0049, -0.0049, 0.0051, -0.0051, 0.006, -0.006, 0.05, -0.05];

pub fn run(_ctx: &Ctx) -> Report {
    let tris = triangles();
    let mots = motions();
    let sizes = [tris.len(), mots.len(), 3, DELTAS.len()];
    let n = par::product(&sizes);
    let mut rep = par::run(n, |idx, r| {
        let mut ix = [0usize; 4];
        par::decode(idx, &sizes, &mut ix);
        if DELTAS[ix[3]] == 0.0 && ix[2] > 0 {
            return;
        }
        let (fails, sig) = eval_motion(&tris[ix[0]], &mots[ix[1]], ix[2], DELTAS[ix[3]]);
        r.states += 1;
        r.transitions += 1;
        r.sig(sig);
        let case = || json!({"kind":"motion","triangle": ix[0], "motion": ix[1], "which": ix[2], "delta": DELTAS[ix[3]]});
        if idx % 1009 == 0 {
            r.sample(case);
        }
        for (k, d) in fails {
            r.fail(k, idx, case(), d);
        }
    });
    // two image points perturbed at once (each by less than the tolerance, their distance by up to twice as much)
    {
        let pairs = [(0usize, 1usize), (0, 2), (1, 2), (2, 1)];
        let deltas = [0.001, 0.0024, 0.0026, 0.004, 0.0049, -0.0026, -0.004];
        let psizes = [tris.len(), mots.len(), pairs.len(), deltas.len()];
        let pn = par::product(&psizes);
        let prep = par::run(pn, |idx, r| {
            let mut ix = [0usize; 4];
            par::decode(idx, &psizes, &mut ix);
            let (i, j) = pairs[ix[2]];
            let (fails, sig) = eval_pair(&tris[ix[0]], &mots[ix[1]], i, j, deltas[ix[3]]);
            r.states += 1;
            r.transitions += 1;
            r.sig(sig);
            for (k, d) in fails {
                r.fail(k, n + 500_000 + idx, json!({"kind":"pair","triangle": ix[0], "motion": ix[1], "i": i, "j": j, "delta": deltas[ix[3]]}), d);
            }
        });
        rep.merge(prep);
    }
    for kind in 0..6 {
        let (fails, sig) = eval_degenerate(kind);
        rep.states += 1;
        rep.transitions += 1;
        rep.sig(sig);
        for (k, d) in fails {
            rep.fail(k, n + kind as u64, json!({"kind":"degenerate","which":kind}), d);
        }
    }
    // Frame::translation
    for (a, b) in [([0.0, 0.0, 0.0], [0.01, 0.0, 0.0]), ([1.0, -2.0, 3.0], [-4.0, 5.5, 0.25]), ([1e3, 1e3, -1e3], [1e3 + 0.5, 1e3, -1e3])] {
        let f = from_na(&Frame::translation(pt(a), pt(b)));
        rep.states += 1;
        rep.transitions += 1;
        if dist(f.apply(a), b) > 1e-12 * (1.0 + norm(b)) || rot_angle(&f.r, &I3) > 1e-15 {
            rep.fail("C17/translation", n + 10, json!({"kind":"translation","p":nums(&a),"q":nums(&b)}), "Frame::translation(p,q) does not move p onto q without rotation");
        }
    }
    for ri in 0..12 {
        for ti in 0..3 {
            for mi in 0..3 {
                let (fails, sig) = eval_forward_transformed(ri * 3, ti, mi);
                rep.states += 1;
                rep.transitions += 2;
                rep.sig(sig);
                for (k, d) in fails {
                    rep.fail(k, n + 20, json!({"kind":"forward_transformed","robot":ri * 3,"theta":ti,"motion":mi}), d);
                }
            }
        }
    }
    // --- threshold sweep: rotation angles a ladder magnitude away from 0 and from a half turn, perturbations a ladder
    // magnitude below / above the 5 mm tolerance, and triangles of ladder height (nearly collinear)
    {
        let lad = crate::common::ladder::ladder(&["frame.rs"]);
        let axes: [V3; 4] = [[0.0, 0.0, 1.0], [1.0, 0.0, 0.0], [1.0, 1.0, 0.0], [0.3, -0.5, 0.8]];
        let ssizes = [lad.len(), 4, 5];
        let sn = par::product(&ssizes);
        let srep = par::run(sn, |idx, r| {
            let mut ix = [0usize; 3];
            par::decode(idx, &ssizes, &mut ix);
            let d = lad[ix[0]];
            let ax = axes[ix[1]];
            let shift = [0.3, -1.2, 0.45];
            let pi = std::f64::consts::PI;
            let (tri, motion, which, delta, tag): ([V3; 3], Iso, usize, f64, &str) = match ix[2] {
                0 => (tris[1], Iso::new(rot_axis(ax, d), shift), 0, 0.0, "angle-near-zero"),
                1 => (tris[1], Iso::new(rot_axis(ax, pi - d), shift), 0, 0.0, "angle-below-half-turn"),
                2 => (tris[0], Iso::new(rot_axis(ax, -pi + d), [0.0; 3]), 0, 0.0, "angle-above-minus-half-turn"),
                3 => {
                    // 5 mm -+ d, on each side, on a rotating choice of image point
                    let below = ix[1] % 2 == 0;
                    if !(d >= 1e-7 && d <= 2e-3) {
                        return;
                    }
                    (tris[1], Iso::new(rot_axis(axes[3], 0.7), shift), ix[1] % 3, if below { 0.005 - d } else { 0.005 + d } * if ix[1] / 2 == 0 { 1.0 } else { -1.0 }, "tolerance-edge")
                }
                _ => {
                    // a triangle whose third point is d above the line through the other two
                    if !(d >= 1e-9) {
                        return;
                    }
                    ([[0.0, 0.0, 0.0], [1.0, 0.0, 0.0], [0.4, d, 0.0]], Iso::new(rot_axis(ax, 0.9), shift), 0, 0.0, "nearly-collinear")
                }
            };
            let (fails, sig) = eval_motion(&tri, &motion, which, delta);
            r.states += 1;
            r.transitions += 1;
            r.sig(format!("{tag}:{sig}"));
            for (k, dd) in fails {
                // a nearly collinear triple may legitimately be refused as collinear
                if tag == "nearly-collinear" && k.starts_with("C17/congruent-rejected") && sig.contains("colinear") {
                    continue;
                }
                r.fail(format!("{k}/{tag}"), n + 1000 + idx, json!({"kind":"motion-explicit","triangle": tri.iter().map(|p| nums(p)).collect::<Vec<_>>(), "motion": crate::common::stack::iso_json(&motion), "which": which, "delta": delta}), dd);
            }
        });
        rep.merge(srep);
        rep.set("threshold_sweep", json!({"ladder_values": lad.len(), "kinds": ["angle-near-zero", "angle-below-half-turn", "angle-above-minus-half-turn", "tolerance-edge", "nearly-collinear"]}));
    }
    rep.traces_validated = rep.transitions;
    rep.rule = "triangles {unit, scalene, thin 1 mm, 10 m out, 1 km out} x rigid motions (4 axes x {0,30,90,179,180,-120 deg} x 3 translations) x perturbation of \
                each image point along an edge by {0, +-1, +-4, +-4.9, +-5.1, +-6, +-50 mm} + two image points moved apart / together by {1, 2.4, 2.6, 4, 4.9 mm} each (classified by the largest change of a side) + degenerate triples (collinear source/target, coincident, scaled) + \
                Frame::translation + forward_transformed on robots x poses x small frames; threshold sweep: rotation angle = ladder magnitude / half turn -+ ladder magnitude about 4 axes, perturbation 5 mm -+ ladder magnitude, triangles of ladder height; signature = (perturbation class, outcome)".into();
    rep.set("axes", json!({"triangles": tris.len(), "motions": mots.len(), "deltas_m": DELTAS.to_vec()}));
    rep
}

pub fn replay(case: &Value) -> Vec<String> {
    let f = match case["kind"].as_str().unwrap() {
        "motion" => eval_motion(
            &triangles()[case["triangle"].as_u64().unwrap() as usize],
            &motions()[case["motion"].as_u64().unwrap() as usize],
            case["which"].as_u64().unwrap() as usize,
            as_num(&case["delta"]),
        )
        .0,
        "motion-explicit" => {
            let t = case["triangle"].as_array().unwrap();
            let v = |x: &Value| -> V3 { let a = x.as_array().unwrap(); [as_num(&a[0]), as_num(&a[1]), as_num(&a[2])] };
            eval_motion(&[v(&t[0]), v(&t[1]), v(&t[2])], &crate::common::stack::iso_from_json(&case["motion"]), case["which"].as_u64().unwrap() as usize, as_num(&case["delta"])).0
        }
        "pair" => eval_pair(
            &triangles()[case["triangle"].as_u64().unwrap() as usize],
            &motions()[case["motion"].as_u64().unwrap() as usize],
            case["i"].as_u64().unwrap() as usize,
            case["j"].as_u64().unwrap() as usize,
            as_num(&case["delta"]),
        )
        .0,
        "degenerate" => eval_degenerate(case["which"].as_u64().unwrap() as usize).0,
        "forward_transformed" => eval_forward_transformed(
            case["robot"].as_u64().unwrap() as usize,
            case["theta"].as_u64().unwrap() as usize,
            case["motion"].as_u64().unwrap() as usize,
        )
        .0,
        _ => vec![],
    };
    f.into_iter().map(|(k, d)| format!("{k}: {d}")).collect()
}
