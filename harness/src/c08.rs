//! C08 — a constrained solver returns exactly the compliant solutions (differential against the
//! identical, unconstrained stack; explicit search over wrapper stacks to depth 3).

use crate::c01::user_joints;
use crate::common::arc::*;
use crate::common::ev::*;
use crate::common::fkref;
use crate::common::m3::*;
use crate::common::par;
use crate::common::robots::*;
use crate::common::stack::*;
use rs_opw_kinematics::constraints::Constraints;
use rs_opw_kinematics::kinematic_traits::{Joints, CONSTRAINT_CENTERED};
use rs_opw_kinematics::parameters::opw_kinematics::Parameters;
use serde_json::{json, Value};
use std::f64::consts::PI;

const THR: f64 = 0.01 * PI / 180.0;

pub struct Case {
    pub stack: StackDesc, // with limits
    pub q: Joints,
    pub prev: Joints,
    pub entry: Entry,
    pub j6: f64,
}
impl Case {
    fn json(&self) -> Value {
        json!({"stack": self.stack.to_json(), "q": nums(&self.q), "prev": nums(&self.prev), "entry": self.entry.name(), "j6": self.j6})
    }
    fn from_json(v: &Value) -> Case {
        Case {
            stack: StackDesc::from_json(&v["stack"]),
            q: as_arr6(&v["q"]),
            prev: as_arr6(&v["prev"]),
            entry: Entry::from_name(v["entry"].as_str().unwrap()),
            j6: as_num(&v["j6"]),
        }
    }
}

fn same_mod(a: &Joints, b: &Joints) -> bool {
    joints_close_mod2pi(a, b, 1e-9)
}

/// Two answers of a stack are the same solution when the wrapped robot's joint vectors agree modulo 2*pi.
/// (With a non-integer coupling the outer coupled angle depends on which 2*pi representative of the driven
/// joint was returned, and that legitimately differs between a CONSTRAINT_CENTERED reference of centres and of zeros.)
fn same_solution(st: &StackDesc, a: &Joints, b: &Joints) -> bool {
    same_mod(&st.inner_joints(a), &st.inner_joints(b))
}

/// Recovered wrist-singular answers come from micro-shifted solves: which shift delivers the accepted candidate
/// may differ between the constrained and the unconstrained robot, and candidates differ at the 1e-7 level.
fn same_singular_solution(st: &StackDesc, a: &Joints, b: &Joints) -> bool {
    joints_close_mod2pi(&st.inner_joints(a), &st.inner_joints(b), 2e-6)
}

pub fn eval(c: &Case) -> (Vec<(String, String)>, String) {
    let mut fails = Vec::new();
    let lim = c.stack.limits.expect("C08 cases carry limits");
    let p = &c.stack.params;
    let constrained = c.stack.build();
    let mut free_desc = c.stack.clone();
    free_desc.limits = None;
    let free = free_desc.build();
    let pose = to_na(&c.stack.model_fk(&c.q));
    let tag = format!("{}/dof{}", c.entry.name(), p.dof);
    let shape = c.stack.shape();

    // constraints() of the wrapper are those of the wrapped robot
    let want = Constraints::new(lim.from, lim.to, lim.weight);
    let same_fields = |a: &Constraints, b: &Constraints| {
        // bit-equal, or equal up to the degree round trip of the from_degrees construction history (an ulp)
        let eq = |x: &[f64; 6], y: &[f64; 6]| x.iter().zip(y).all(|(p, q)| p.to_bits() == q.to_bits() || (p - q).abs() <= 1e-12 * (1.0 + p.abs()));
        eq(&a.from, &b.from) && eq(&a.to, &b.to) && eq(&a.centers, &b.centers) && eq(&a.tolerances, &b.tolerances)
            && a.sorting_weight.to_bits() == b.sorting_weight.to_bits()
    };
    match constrained.constraints() {
        Some(got) if same_fields(got, &want) => {}
        other => fails.push((
            format!("C08/constraints-not-delegated/{shape}"),
            format!("constraints() of the stack reports {other:?}, the wrapped robot has {want:?}"),
        )),
    }

    let got = match call(constrained.as_ref(), c.entry, &pose, &c.prev, c.j6) {
        Ok(s) => s,
        Err(m) => return (vec![(format!("C08/panic/{tag}"), m)], "panic".into()),
    };
    let all = match call(free.as_ref(), c.entry, &pose, &c.prev, c.j6) {
        Ok(s) => s,
        Err(m) => return (vec![(format!("C08/panic-unconstrained/{tag}"), m)], "panic".into()),
    };
    let sentinel = c.prev[0].is_nan();
    let singular = |s: &Joints| {
        let th = fkref::internal_angles(p, &c.stack.inner_joints(s));
        let w = wrap_pi(th[4]).abs();
        w < 10.0 * THR || (PI - w) < 10.0 * THR
    };
    // every returned vector satisfies the limits (limits apply to the wrapped robot's joint vector)
    for s in &got {
        let inner = c.stack.inner_joints(s);
        if arc_member6(&lim.from, &lim.to, &inner, 1e-5) == ArcVerdict::Outside {
            fails.push((
                format!("C08/returns-noncompliant/{tag}"),
                format!("answer {s:?} (inner {inner:?}) violates limits from {:?} to {:?} [{shape}]", lim.from, lim.to),
            ));
        }
        if sentinel && singular(s) {
            continue; // the recovered split of J4/J6 legitimately depends on the constraint centres
        }
        if !all.iter().any(|u| same_solution(&c.stack, u, s) || (singular(s) && same_singular_solution(&c.stack, u, s))) {
            fails.push((
                format!("C08/answer-not-in-unconstrained-set/{tag}"),
                format!("answer {s:?} is not among the {} answers of the same stack without limits [{shape}]", all.len()),
            ));
        }
    }
    // every compliant solution of the unconstrained query is still returned
    for u in &all {
        if sentinel && singular(u) {
            continue;
        }
        let inner = c.stack.inner_joints(u);
        if arc_member6(&lim.from, &lim.to, &inner, 1e-5) == ArcVerdict::Inside && !got.iter().any(|s| same_solution(&c.stack, u, s) || (singular(u) && same_singular_solution(&c.stack, u, s))) {
            fails.push((
                format!("C08/compliant-answer-dropped/{tag}"),
                format!("unconstrained answer {u:?} satisfies the limits but is missing ({} of {} returned) [{shape}]", got.len(), all.len()),
            ));
        }
    }
    (fails, format!("{}:dof{}:{}of{}", c.entry.name(), p.dof, got.len().min(9), all.len().min(9)))
}

fn wrap_alphabet() -> Vec<Wrap> {
    let g = Iso::new(mmul(&rotx(0.4), &mmul(&roty(-0.9), &rotz(1.3))), [0.2, -0.1, 0.3]);
    let axial = Iso::new(rotz(0.8), [0.0, 0.0, 0.2]);
    vec![Wrap::Tool(axial), Wrap::Base(g), Wrap::Frame(axial), Wrap::Para { driven: 1, coupled: 2, scaling: 1.0 }]
}

fn wrap_alphabet_thorough() -> Vec<Wrap> {
    let g = Iso::new(mmul(&rotx(0.4), &mmul(&roty(-0.9), &rotz(1.3))), [0.2, -0.1, 0.3]);
    let mut v = wrap_alphabet();
    v.push(Wrap::Para { driven: 0, coupled: 5, scaling: -0.5 });
    v.push(Wrap::Tool(g));
    v
}

/// Explicit search over stacks: breadth-first, every wrapper sequence up to `depth`.
pub fn all_stacks(depth: usize, alphabet: &[Wrap]) -> Vec<Vec<Wrap>> {
    let mut out: Vec<Vec<Wrap>> = vec![vec![]];
    let mut frontier: Vec<Vec<Wrap>> = vec![vec![]];
    for _ in 0..depth {
        let mut next = Vec::new();
        for s in &frontier {
            for w in alphabet {
                let mut t = s.clone();
                t.push(*w);
                next.push(t);
            }
        }
        out.extend(next.iter().cloned());
        frontier = next;
    }
    out
}

fn limit_sets(q_inner: &Joints, weights: &[f64]) -> Vec<Limits> {
    let c: Joints = std::array::from_fn(|i| wrap_pi(q_inner[i]));
    let mut out = Vec::new();
    for &w in weights {
        out.push(Limits { from: c.map(|x| x - 0.4), to: c.map(|x| x + 0.4), weight: w });
        out.push(Limits { from: c.map(|x| wrap_pi(x + PI + 0.6)), to: c.map(|x| wrap_pi(x + PI - 0.6)), weight: w });
        out.push(Limits { from: [-3.0; 6], to: [3.0; 6], weight: w });
        for j in [0usize, 3, 5] {
            let mut f = c.map(|x| x - 1.2);
            let mut t = c.map(|x| x + 1.2);
            f[j] = 0.7;
            t[j] = 0.7;
            out.push(Limits { from: f, to: t, weight: w });
        }
        // window that excludes every solution on joint 2
        let mut f = [-3.0; 6];
        let mut t = [3.0; 6];
        f[1] = wrap_pi(c[1] + 1.5);
        t[1] = wrap_pi(c[1] + 1.6);
        out.push(Limits { from: f, to: t, weight: w });
        // J4/J6 windows that cut the recovered singular answer in or out
        let mut f = [-3.0; 6];
        let mut t = [3.0; 6];
        f[3] = c[3] - 0.2;
        t[3] = c[3] + 0.2;
        f[5] = c[5] + 0.1;
        t[5] = c[5] + 0.9;
        out.push(Limits { from: f, to: t, weight: w });
        // a narrow J4 window with J6 free: a previous vector outside it can still lead to a recovered answer inside
        let mut f = [-3.0; 6];
        let mut t = [3.0; 6];
        f[3] = c[3] - 0.1;
        t[3] = c[3] + 0.1;
        f[5] = 0.0;
        t[5] = 0.0;
        out.push(Limits { from: f, to: t, weight: w });
        // almost a full turn: only a sliver of 8e-4 rad around the solution's own J4 (and, separately, J1) is forbidden,
        // written once as a wrapping range and once symmetric about the opposite point
        for j in [3usize, 0] {
            let mut f = [-3.0; 6];
            let mut t = [3.0; 6];
            f[j] = c[j] + 4e-4;
            t[j] = c[j] - 4e-4;
            out.push(Limits { from: f, to: t, weight: w });
            let mut f = [-3.0; 6];
            let mut t = [3.0; 6];
            f[j] = c[j] + 4e-4 - 2.0 * PI;
            t[j] = c[j] - 4e-4;
            out.push(Limits { from: f, to: t, weight: w });
        }
    }
    out
}

pub fn run(ctx: &Ctx) -> Report {
    let thorough = !ctx.quick();
    let stacks = all_stacks(3, &if thorough { wrap_alphabet_thorough() } else { wrap_alphabet() });
    let mut stacks = stacks;
    if !thorough {
        // a few depth-3 stacks in the quick tier as well
        let a = wrap_alphabet();
        stacks.push(vec![a[3], a[1], a[0]]);
        stacks.push(vec![a[0], a[3], a[1]]);
        stacks.push(vec![a[2], a[0], a[3]]);
        stacks.push(vec![a[1], a[1], a[3]]);
    }
    let all_r = robot_axis(0, &[6, 5]);
    let robots: Vec<Parameters> = if thorough {
        all_r.iter().step_by(2).cloned().collect()
    } else {
        let n = all_r.len() / 2;
        vec![all_r[1], all_r[8], all_r[17], all_r[n + 1], all_r[n + 9], all_r[all_r.len() - 3]]
    };
    let thetas: Vec<[f64; 6]> = vec![
        [0.4, -0.9, -1.9, 0.3, 0.6, 0.2],
        [-2.4, 0.5, 0.8, -1.3, -1.2, 2.5],
        [0.7, 0.2, 0.1, 1.1, 0.0, -0.4], // wrist singular
        [3.0, 1.3, 2.6, 2.9, 2.2, -3.0],
    ];
    let weights: Vec<f64> = if thorough { vec![0.0, 0.5, 1.0] } else { vec![0.0, 1.0] };
    let n_lim = limit_sets(&[0.0; 6], &weights).len();
    let sizes = [stacks.len(), robots.len(), thetas.len(), n_lim];
    let n = par::product(&sizes);
    let mut rep = par::run(n, |idx, r| {
        let mut ix = [0usize; 4];
        par::decode(idx, &sizes, &mut ix);
        let p = &robots[ix[1]];
        let q_inner = user_joints(p, &thetas[ix[2]]);
        let mut desc = StackDesc::bare(*p);
        desc.wraps = stacks[ix[0]].clone();
        // outer joint vector whose inner image is q_inner: undo the couplings
        let mut q = q_inner;
        for w in &desc.wraps {
            if let Wrap::Para { driven, coupled, scaling } = *w {
                q[coupled] += scaling * q[driven];
            }
        }
        let lim = limit_sets(&q_inner, &weights)[ix[3]];
        let desc = desc.limited(lim);
        r.states += 1;
        let mut prev2 = q;
        prev2[3] += 0.3;
        prev2[5] -= 0.3;
        // J4 outside the narrow window, J6 such that sharing the difference brings J4 back inside (by 0.25 rad each)
        let mut prev3 = q;
        prev3[3] -= 0.3;
        prev3[5] -= 0.2;
        for entry in ENTRIES {
            for prev in [q, prev2, prev3, CONSTRAINT_CENTERED] {
                if !entry.uses_prev() && prev[0].to_bits() != q[0].to_bits() {
                    continue;
                }
                let c = Case { stack: desc.clone(), q, prev, entry, j6: q[5] };
                let (fails, sig) = eval(&c);
                r.transitions += 2;
                r.sig(sig);
                if (idx + r.transitions) % 200_003 == 0 {
                    r.sample(|| c.json());
                }
                for (k, d) in fails {
                    r.fail(k, idx, c.json(), d);
                }
            }
        }
    });
    rep.traces_validated = rep.transitions;
    rep.rule = "breadth-first enumeration of wrapper stacks over {tool, base, frame, parallelogram} to the stated depth around a constrained OPW robot \
                (dof 5 and 6) x poses (regular and wrist-singular) x limit sets {window, wrapping window, wide, from==to on J1/J4/J6, window excluding \
                everything, J4/J6 windows around the singular recovery, narrow J4 window with J6 free, almost-full-turn ranges forbidding an 8e-4 rad sliver around the solution's J4 / J1} x weights x entry points x previous {solution, perturbed J4/J6 (two ways, one outside the limits), \
                CONSTRAINT_CENTERED}; oracle: answers == {u in answers of the same stack without limits : arc membership accepts the wrapped robot's \
                joint vector}, both inclusions, mod 2pi; constraints() delegated field by field; signature = (entry, dof, kept of total)".into();
    rep.set("axes", json!({"stacks": stacks.len(), "robots": robots.len(), "poses": thetas.len(), "limit_sets": n_lim}));
    rep.assumptions.push("limits of a parallelogram stack are read on the wrapped robot's joint vector (the weaker reading)".into());
    rep.assumptions.push("with CONSTRAINT_CENTERED the recovered singular answer may differ between constrained and unconstrained stacks (different reference), so singular answers are compared only for explicit previous vectors".into());
    rep
}

pub fn replay(case: &Value) -> Vec<String> {
    let c = Case::from_json(case);
    eval(&c).0.into_iter().map(|(k, d)| format!("{k}: {d}")).collect()
}
