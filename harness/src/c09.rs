//! C09 — tool, base and frame wrappers compose transforms consistently in both directions
//! (explicit search over wrapper stacks; per-stack delegation matrix of every trait entry point).

use crate::c01::{user_joints, ANG_TOL, POS_TOL};
use crate::c08::all_stacks;
use crate::common::ev::*;
use crate::common::fkref;
use crate::common::m3::*;
use crate::common::par;
use crate::common::robots::*;
use crate::common::stack::*;
use nalgebra::Translation3;
use rs_opw_kinematics::constraints::Constraints;
use rs_opw_kinematics::kinematic_traits::{Joints, Kinematics};
use rs_opw_kinematics::kinematics_impl::OPWKinematics;
use rs_opw_kinematics::parameters::opw_kinematics::Parameters;
use rs_opw_kinematics::tool::{Gantry, LinearAxis};
use serde_json::{json, Value};
use std::f64::consts::PI;
use std::sync::Arc;

const FWD_POS: f64 = 1e-9;
const FWD_ANG: f64 = 1e-9;

fn isometries() -> Vec<(Iso, bool)> {
    // (isometry, axial?)
    vec![
        (Iso::identity(), true),
        (Iso::trans(0.0, 0.0, 0.25), true),
        (Iso::new(rotz(0.7), [0.0, 0.0, 0.15]), true),
        (Iso::trans(0.3, 0.0, 0.0), false),
        (Iso::new(mmul(&rotx(0.4), &mmul(&roty(-0.9), &rotz(1.3))), [0.2, -0.1, 0.3]), false),
        (Iso::new(rotx(PI), [0.0, 0.4, 0.0]), false),
    ]
}

fn is_axial(i: &Iso) -> bool {
    i.t[0] == 0.0 && i.t[1] == 0.0 && (i.r[2][2] - 1.0).abs() < 1e-15
}

pub struct Case {
    pub stack: StackDesc,
    pub q: Joints,
}
impl Case {
    fn json(&self) -> Value {
        json!({"kind": "stack", "stack": self.stack.to_json(), "q": nums(&self.q)})
    }
}

pub fn eval(c: &Case) -> (Vec<(String, String)>, String) {
    let mut fails = Vec::new();
    let st = &c.stack;
    let p = &st.params;
    let shape = st.shape();
    let k = st.build();
    let q = &c.q;
    // forward
    let want = st.model_fk(q);
    let got = from_na(&k.forward(q));
    let (dp, da) = pose_dist(&got, &want);
    if !(dp <= FWD_POS && da <= FWD_ANG) {
        fails.push((format!("C09/forward/{shape}"), format!("forward differs from base*robot*tool by {dp:e} m, {da:e} rad")));
    }
    // link poses
    let links = k.forward_with_joint_poses(q);
    let wl = st.model_links(q);
    for i in 0..6 {
        let (dp, da) = pose_dist(&from_na(&links[i]), &wl[i]);
        if !(dp <= FWD_POS && da <= FWD_ANG) {
            fails.push((
                format!("C09/link-poses/{shape}"),
                format!("link {} differs from the composed reference by {dp:e} m, {da:e} rad", i + 1),
            ));
            break;
        }
    }
    // last link == forward when the outermost non-base wrapper is not a tool (no tool anywhere)
    if !st.wraps.iter().any(|w| matches!(w, Wrap::Tool(_))) {
        let (dp, da) = pose_dist(&from_na(&links[5]), &got);
        if !(dp <= FWD_POS && da <= FWD_ANG) {
            fails.push((format!("C09/last-link-vs-forward/{shape}"), format!("last link pose differs from forward by {dp:e} m, {da:e} rad")));
        }
    }
    // singularity and constraints are those of the wrapped robot
    let bare = OPWKinematics::new_with_constraints(*p, st.limits.unwrap().build());
    if k.kinematic_singularity(q).is_some() != bare.kinematic_singularity(q).is_some() {
        fails.push((format!("C09/singularity-delegation/{shape}"), "kinematic_singularity differs from the wrapped robot".into()));
    }
    match (k.constraints(), bare.constraints()) {
        (Some(a), Some(b)) if a.from == b.from && a.to == b.to && a.sorting_weight == b.sorting_weight => {}
        _ => fails.push((format!("C09/constraints-delegation/{shape}"), "constraints() differs from the wrapped robot".into())),
    }
    // inverse entry points
    let axial_ok = st.wraps.iter().all(|w| match w {
        Wrap::Tool(t) | Wrap::Frame(t) => is_axial(t),
        _ => true,
    });
    let pose = to_na(&want);
    let mut prev_near = *q;
    prev_near[3] += 0.2;
    prev_near[5] = 0.55;
    let th = fkref::internal_angles(p, q);
    let lim = st.limits.unwrap();
    let within = crate::common::arc::arc_member6(&lim.from, &lim.to, q, 1e-6) == crate::common::arc::ArcVerdict::Inside;
    let regular = th[4].sin().abs() > 1e-3 && within && crate::c02::expected_branches(p, &fkref::fk(p, &st.inner_joints(q))).is_some();
    let centres = Constraints::new(lim.from, lim.to, lim.weight).centers;
    let mut nsol = 0;
    let variants: Vec<(Entry, Joints, Joints)> = ENTRIES
        .iter()
        .flat_map(|e| {
            let mut v = vec![(*e, prev_near, prev_near)];
            if e.uses_prev() {
                // the sentinel stands for the constraint centres; a multi-turn previous inside +-2pi
                v.push((*e, rs_opw_kinematics::kinematic_traits::CONSTRAINT_CENTERED, centres));
                let far: Joints = [q[0], q[1], q[2], q[3] - 5.0, q[4], 6.0];
                v.push((*e, far, far));
            }
            v
        })
        .collect();
    for (entry, prev, reference) in variants {
        let five = p.dof == 5 || matches!(entry, Entry::FiveDof | Entry::Continuing5);
        if five && !axial_ok {
            continue;
        }
        let j6 = -3.0;
        let sols = match call(k.as_ref(), entry, &pose, &prev, j6) {
            Ok(s) => s,
            Err(m) => {
                fails.push((format!("C09/panic/{}/{shape}", entry.name()), m));
                continue;
            }
        };
        nsol += sols.len();
        if regular && sols.is_empty() {
            fails.push((format!("C09/empty/{}/{shape}", entry.name()), "no answer for the pose produced by forward".into()));
        }
        let mut last_cost = f64::NEG_INFINITY;
        for s in &sols {
            // maps back through the stack onto the request
            let back = st.model_fk(s);
            let (dp, da) = pose_dist(&back, &want);
            if !(dp <= POS_TOL) {
                fails.push((
                    format!("C09/round-trip-position/{}/{shape}", entry.name()),
                    format!("answer {s:?} maps to a point {dp:e} m from the request"),
                ));
                break;
            }
            if !five && !(da <= ANG_TOL) {
                fails.push((
                    format!("C09/round-trip-rotation/{}/{shape}", entry.name()),
                    format!("answer {s:?} maps to an orientation {da:e} rad from the request"),
                ));
                break;
            }
            // own contract of the entry point
            match entry {
                Entry::FiveDof => {
                    if s[5].to_bits() != j6.to_bits() {
                        fails.push((format!("C09/j6-contract/inverse_5dof/{shape}"), format!("J6 = {} instead of the caller's {j6}", s[5])));
                        break;
                    }
                }
                Entry::Continuing5 => {
                    if s[5].to_bits() != prev[5].to_bits() && !(prev[0].is_nan() && s[5] == 0.0) {
                        fails.push((
                            format!("C09/j6-contract/inverse_continuing_5dof/{shape}"),
                            format!("J6 = {} instead of the previous {}", s[5], prev[5]),
                        ));
                        break;
                    }
                }
                _ => {}
            }
            if entry.uses_prev() {
                let upto = if five { 5 } else { 6 };
                if (0..upto).any(|i| (s[i] - reference[i]).abs() > PI * (1.0 + 1e-12)) {
                    fails.push((
                        format!("C09/continuation-representative/{}/{shape}", entry.name()),
                        format!("answer {s:?} is not the representative nearest to previous {prev:?} (reference {reference:?})"),
                    ));
                    break;
                }
                let cost: f64 = (0..upto).map(|i| (s[i] - reference[i]).abs()).sum();
                if cost < last_cost - 1e-12 * (1.0 + last_cost.abs()) {
                    fails.push((
                        format!("C09/continuation-order/{}/{shape}", entry.name()),
                        format!("answers not ordered by closeness to previous ({cost} after {last_cost})"),
                    ));
                    break;
                }
                last_cost = cost;
            }
        }
    }
    (fails, format!("{shape}:n{}", nsol.min(40)))
}

// ------------------------------------------------------------------ LinearAxis / Gantry

fn eval_axis(p: &Parameters, q: &Joints, base: &Iso, axis: u32, d: f64, gantry: Option<[f64; 3]>) -> Vec<(String, String)> {
    let mut fails = Vec::new();
    let robot: Arc<dyn Kinematics> = Arc::new(OPWKinematics::new(*p));
    let inner = fkref::fk(p, q);
    match gantry {
        None => {
            let la = LinearAxis::verif_new(robot, axis, to_na(base));
            let got = from_na(&la.forward(d, q));
            let mut t = [0.0; 3];
            t[axis as usize] = d;
            let want = base.mul(&Iso::trans(t[0], t[1], t[2])).mul(&inner);
            let (dp, da) = pose_dist(&got, &want);
            if !(dp <= FWD_POS * (1.0 + d.abs()) && da <= FWD_ANG) {
                fails.push((
                    format!("C09/linear-axis-forward/axis{axis}"),
                    format!("LinearAxis::forward differs from base*T(axis*d)*robot by {dp:e} m, {da:e} rad"),
                ));
            }
        }
        Some(t) => {
            let g = Gantry::verif_new(robot, to_na(base));
            let got = from_na(&g.forward(&Translation3::new(t[0], t[1], t[2]), q));
            let want = base.mul(&Iso::trans(t[0], t[1], t[2])).mul(&inner);
            let (dp, da) = pose_dist(&got, &want);
            if !(dp <= FWD_POS * (1.0 + norm(t)) && da <= FWD_ANG) {
                fails.push(("C09/gantry-forward".to_string(), format!("Gantry::forward differs from base*T*robot by {dp:e} m, {da:e} rad")));
            }
        }
    }
    fails
}

pub fn run(ctx: &Ctx) -> Report {
    let thorough = !ctx.quick();
    let isos = isometries();
    // alphabet of wrappers: kind x isometry
    let mut alphabet: Vec<Wrap> = Vec::new();
    let iso_subset: Vec<usize> = if thorough { (0..isos.len()).collect() } else { vec![1, 2, 3, 4] };
    for &i in &iso_subset {
        alphabet.push(Wrap::Tool(isos[i].0));
        alphabet.push(Wrap::Base(isos[i].0));
        alphabet.push(Wrap::Frame(isos[i].0));
    }
    let stacks: Vec<Vec<Wrap>> = all_stacks(3, &alphabet).into_iter().skip(1).collect();
    let all_r = robot_axis(0, &[6]);
    let robots: Vec<Parameters> = if thorough { all_r.iter().step_by(4).cloned().collect() } else { vec![all_r[1], all_r[9], all_r[22], all_r[all_r.len() - 6], all_r[all_r.len() - 5]] };
    let thetas: Vec<[f64; 6]> = if thorough {
        vec![[0.4, -0.9, -1.9, 0.3, 0.6, 0.2], [-2.4, 0.5, 0.8, -1.3, -1.2, 2.5], [3.0, 1.3, 2.6, 2.9, 2.2, -3.0], [0.7, 0.2, 0.1, 1.1, 0.0, -0.4]]
    } else {
        vec![[0.4, -0.9, -1.9, 0.3, 0.6, 0.2], [-2.4, 0.5, 0.8, -1.3, -1.2, 2.5]]
    };
    let sizes = [stacks.len(), robots.len(), thetas.len()];
    let n = par::product(&sizes);
    let mut rep = par::run(n, |idx, r| {
        let mut ix = [0usize; 3];
        par::decode(idx, &sizes, &mut ix);
        let p = &robots[ix[1]];
        let q = user_joints(p, &thetas[ix[2]]);
        // limits that accept every angle (each span exceeds a turn) but whose centres are far from zero (J1, J4, J6), so that CONSTRAINT_CENTERED is not the same as zeros
        let mut desc = StackDesc::bare(*p).limited(Limits { from: [-1.5, -3.2, -3.2, -1.0, -3.2, -5.9], to: [5.0, 3.2, 3.2, 5.5, 3.2, 0.6], weight: 0.0 });
        desc.wraps = stacks[ix[0]].clone();
        let c = Case { stack: desc, q };
        let (fails, sig) = eval(&c);
        r.states += 1;
        r.transitions += 7;
        r.sig(sig);
        if idx % 20_011 == 0 {
            r.sample(|| c.json());
        }
        for (k, d) in fails {
            r.fail(k, idx, c.json(), d);
        }
    });
    // --- threshold sweep: wrappers whose isometry is almost, but not exactly, a pure translation / the identity
    let lad = crate::common::ladder::ladder(&["tool.rs", "frame.rs"]);
    let lad: Vec<f64> = if thorough { lad } else { lad.into_iter().step_by(2).collect() };
    let tsizes = [lad.len(), 3, 4, 2, 2];
    let tn = par::product(&tsizes);
    let generic = isos[4].0;
    let trep = par::run(tn, |idx, r| {
        let mut ix = [0usize; 5];
        par::decode(idx, &tsizes, &mut ix);
        let d = lad[ix[0]];
        let s3 = 1.0 / 3f64.sqrt();
        let tiny = match ix[2] {
            0 => Iso::new(rotx(d), [0.1, -0.05, 0.2]),
            1 => Iso::new(rot_axis([s3, s3, s3], -d), [0.0, 0.0, 0.0]),
            2 => Iso::new(rotz(d), [0.0, 0.0, 0.15]),
            _ => Iso::new(mmul(&roty(0.3), &rotz(-0.2)), [d, -d, 0.0]),
        };
        let w = match ix[1] {
            0 => Wrap::Tool(tiny),
            1 => Wrap::Base(tiny),
            _ => Wrap::Frame(tiny),
        };
        let p = &robots[ix[4] * (robots.len() - 1)];
        let q = user_joints(p, &thetas[0]);
        let mut desc = StackDesc::bare(*p).limited(Limits { from: [-1.5, -3.2, -3.2, -1.0, -3.2, -5.9], to: [5.0, 3.2, 3.2, 5.5, 3.2, 0.6], weight: 0.0 });
        desc.wraps = if ix[3] == 0 { vec![w] } else { vec![Wrap::Base(generic), w, Wrap::Tool(isos[2].0)] };
        let c = Case { stack: desc, q };
        let (fails, sig) = eval(&c);
        r.states += 1;
        r.transitions += 7;
        r.sig(format!("almost-identity:{sig}"));
        for (k, dd) in fails {
            r.fail(format!("{k}/almost-identity"), n + 1_000_000 + idx, c.json(), dd);
        }
    });
    rep.merge(trep);
    rep.set("threshold_sweep", json!({"ladder_values": lad.len(), "wrappers": 3, "tiny_isometries": ["rot x", "rot (1,1,1)", "rot z axial", "tiny translation"], "nestings": ["alone", "base > w > tool"]}));
    // --- the same contract one level further out: a robot with shape (base > tool > limits plus a collision filter) must keep
    // the continuation order of the stack it wraps, whichever answers the filter removes
    {
        let qs: Vec<Joints> = crate::c10::postures(false).into_iter().step_by(3).collect();
        let layouts = [0usize, 2, 3, 9, 11, 12];
        let wsizes = [3, layouts.len(), 2, qs.len()];
        let wn = par::product(&wsizes);
        let wrep = par::run(wn, |idx, r| {
            let mut ix = [0usize; 4];
            par::decode(idx, &wsizes, &mut ix);
            r.states += 1;
            for far in [false, true] {
                let (fails, sigs, calls) = eval_shape(ix[0], layouts[ix[1]], ix[2], &qs[ix[3]], far);
                r.transitions += calls;
                for sg in sigs {
                    r.sig(sg);
                }
                for (k, d) in fails {
                    r.fail(k, n + 2_000_000 + idx, json!({"kind": "shape", "frames": ix[0], "layout": layouts[ix[1]], "limits": ix[2], "q": nums(&qs[ix[3]]), "far": far}), d);
                }
            }
        });
        rep.merge(wrep);
    }
    // LinearAxis / Gantry
    let ds = [0.0, 0.5, -1.25, 7.0];
    for (ri, p) in robots.iter().enumerate() {
        for th in &thetas {
            let q = user_joints(p, th);
            for (bi, (b, _)) in isos.iter().enumerate() {
                for axis in 0..3u32 {
                    for d in ds {
                        rep.states += 1;
                        rep.transitions += 1;
                        for (k, dd) in eval_axis(p, &q, b, axis, d, None) {
                            rep.fail(k, n + (ri * 100 + bi) as u64, json!({"kind":"axis","params":params_json(p),"q":nums(&q),"base":iso_json(b),"axis":axis,"d":d}), dd);
                        }
                    }
                }
                for t in [[0.0, 0.0, 0.0], [0.5, -1.0, 2.0]] {
                    rep.states += 1;
                    rep.transitions += 1;
                    for (k, dd) in eval_axis(p, &q, b, 0, 0.0, Some(t)) {
                        rep.fail(k, n + (ri * 100 + bi) as u64, json!({"kind":"gantry","params":params_json(p),"q":nums(&q),"base":iso_json(b),"t":nums(&t)}), dd);
                    }
                }
            }
        }
    }
    rep.sig("linear-axis-and-gantry");
    rep.traces_validated = rep.transitions;
    rep.rule = format!(
        "breadth-first enumeration of every wrapper sequence of length 1..3 over {{tool, base, frame}} x {} isometries ({} stacks) x robots x joint vectors; \
         in every stack: forward and link poses against the composed reference, singularity/constraints delegation, and all four inverse entry points \
         (5-DOF ones on stacks whose tools/frames are axial): answers map back onto the request, continuation answers are nearest representatives in \
         closeness order, 5-DOF answers carry the caller's / previous J6 bit-equal; the continuation order also through a robot with shape (collision filter over tool > base > limits, six environments); LinearAxis (axes 0..2) and Gantry forward; threshold sweep: each wrapper kind with a rotation / translation of every ladder magnitude, alone and nested; signature = (stack shape, answers)",
        iso_subset.len(),
        stacks.len()
    );
    rep.set("axes", json!({"stacks": stacks.len(), "isometries": iso_subset.len(), "robots": robots.len(), "joint_vectors": thetas.len()}));
    rep
}

/// Continuation order through a robot with shape (see `run`).
fn eval_shape(frames: usize, layout: usize, limits: usize, q: &Joints, far: bool) -> (Vec<(String, String)>, Vec<String>, u64) {
    let mut fails = Vec::new();
    let mut sigs = Vec::new();
    let mut calls = 0u64;
    let case = crate::c11::Case { ctor: 2, frames, layout, safety: 0, limits, q: *q };
    let cell = crate::c11::cell_for(&case);
    let mut robot = crate::c11::build(&case, &cell);
    // every second case (by the bits of the posture): collision checking switched off through the public field; the
    // entry points keep their contracts all the same
    let unchecked = (q[1].to_bits() ^ q[3].to_bits().rotate_left(17) ^ (layout as u64) ^ (far as u64)) % 2 == 1;
    if unchecked {
        robot.body.safety.mode = rs_opw_kinematics::collisions::CheckMode::NoCheck;
    }
    let pose = to_na(&cell.tcp(&case.q));
    let w = cell.limits.weight;
    let centres = rs_opw_kinematics::constraints::Constraints::new(cell.limits.from, cell.limits.to, w).centers;
    let mut prev = case.q;
    prev[3] += 0.2;
    if far {
        prev = [2.0, -1.0, 1.5, -2.5, 1.0, 2.8];
    }
    for entry in [Entry::Continuing, Entry::Continuing5] {
        let Ok(sols) = call(&robot, entry, &pose, &prev, 0.0) else { continue };
        calls += 1;
        let upto = if entry == Entry::Continuing5 { 5 } else { 6 };
        let mut last = f64::NEG_INFINITY;
        for s in &sols {
            let dp: f64 = (0..upto).map(|i| (s[i] - prev[i]).abs()).sum();
            let dc: f64 = (0..upto).map(|i| (s[i] - centres[i]).abs()).sum();
            let cost = (1.0 - w) * dp + w * dc;
            if cost < last - 1e-9 * (1.0 + last.abs()) {
                fails.push((
                    format!("C09/continuation-order/{}/shape>tool>base>opw{}", entry.name(), if unchecked { "/nocheck" } else { "" }),
                    format!("answers of the robot with shape are not in closeness order: cost {cost} after {last} in {sols:?}"),
                ));
                break;
            }
            last = cost;
        }
        // the 5-DOF entry point keeps its own contract through the robot with shape: J6 is the caller's
        if entry == Entry::Continuing5 {
            if let Some(bad) = sols.iter().find(|s| s[5].to_bits() != prev[5].to_bits()) {
                fails.push((
                    "C09/entry-contract/inverse_continuing_5dof/shape>tool>base>opw".to_string(),
                    format!("answer {bad:?} does not carry the caller's J6 = {}", prev[5]),
                ));
            }
        }
        sigs.push(format!("shape:{}:{}{}", entry.name(), sols.len().min(3), if unchecked { ":nocheck" } else { "" }));
    }
    if let Ok(sols) = call(&robot, Entry::FiveDof, &pose, &prev, 0.55) {
        calls += 1;
        if let Some(bad) = sols.iter().find(|s| s[5].to_bits() != 0.55f64.to_bits()) {
            fails.push(("C09/entry-contract/inverse_5dof/shape>tool>base>opw".to_string(), format!("answer {bad:?} does not carry the caller's J6 = 0.55")));
        }
        sigs.push(format!("shape:inverse_5dof:{}", sols.len().min(3)));
    }
    (fails, sigs, calls)
}

pub fn replay(case: &Value) -> Vec<String> {
    match case["kind"].as_str().unwrap_or("stack") {
        "shape" => eval_shape(
            case["frames"].as_u64().unwrap() as usize,
            case["layout"].as_u64().unwrap() as usize,
            case["limits"].as_u64().unwrap() as usize,
            &as_arr6(&case["q"]),
            case["far"].as_bool().unwrap_or(false),
        )
        .0
        .into_iter()
        .map(|(k, d)| format!("{k}: {d}"))
        .collect(),
        "axis" => eval_axis(
            &params_from_json(&case["params"]),
            &as_arr6(&case["q"]),
            &iso_from_json(&case["base"]),
            case["axis"].as_u64().unwrap() as u32,
            as_num(&case["d"]),
            None,
        )
        .into_iter()
        .map(|(k, d)| format!("{k}: {d}"))
        .collect(),
        "gantry" => eval_axis(
            &params_from_json(&case["params"]),
            &as_arr6(&case["q"]),
            &iso_from_json(&case["base"]),
            0,
            0.0,
            Some(as_arr3(&case["t"])),
        )
        .into_iter()
        .map(|(k, d)| format!("{k}: {d}"))
        .collect(),
        _ => {
            let c = Case { stack: StackDesc::from_json(&case["stack"]), q: as_arr6(&case["q"]) };
            eval(&c).0.into_iter().map(|(k, d)| format!("{k}: {d}")).collect()
        }
    }
}
