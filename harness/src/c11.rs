//! C11 — collision-aware IK returns exactly the non-colliding solutions of the underlying stack, in order.

use crate::c10::env_layout;
use crate::common::cell::*;
use crate::common::ev::*;
use crate::common::m3::*;
use crate::common::par;
use crate::common::stack::*;
use rs_opw_kinematics::collisions::CollisionBody;
use rs_opw_kinematics::constraints::Constraints;
use rs_opw_kinematics::kinematic_traits::{Joints, Kinematics};
use rs_opw_kinematics::kinematics_with_shape::KinematicsWithShape;
use serde_json::{json, Value};

#[derive(Clone, Debug)]
pub struct Case {
    pub ctor: usize,   // 0 new(first only), 1 new(all), 2 with_safety, 3 with_safety(no check), safety installed afterwards through the public field
    pub frames: usize, // base/tool isometry choice
    pub layout: usize,
    pub safety: usize, // 0 touch, 1 3 cm, 2 touch with per-pair distances of 10-15 cm
    pub limits: usize, // 0 wide, 1 window, 2 window with hand-set centres / tolerances (public fields), 3 J4/J6 ranges that wrap, 4 J6 unconstrained (from == to), 5 wider than half a turn on every joint
    pub q: Joints,
}

fn frames(k: usize) -> (Iso, Iso) {
    match k {
        0 => (Iso::identity(), Iso::identity()),
        1 => (Iso::trans(0.3, -0.2, 0.1), Iso::trans(0.0, 0.0, 0.25)),
        _ => (Iso::new(rotz(0.4), [0.3, -0.2, 0.1]), Iso::new(mmul(&roty(0.3), &rotz(-0.5)), [0.02, 0.0, 0.25])),
    }
}

fn extra_layout(k: usize) -> Vec<EnvObj> {
    match k {
        // a slab above the arm: blocks "elbow up / reaching over" branches
        11 => vec![EnvObj { lo: [-1.0, -1.0, 1.35], hi: [1.0, 1.0, 1.40], subdiv: 1, pose: Iso::identity(), shape: 0 }],
        // a wall in front
        12 => vec![EnvObj { lo: [0.45, -1.0, 0.0], hi: [0.50, 1.0, 2.0], subdiv: 1, pose: Iso::identity(), shape: 0 }],
        // a cage that blocks everything
        13 => vec![EnvObj { lo: [-2.0, -2.0, 0.45], hi: [2.0, 2.0, 0.55], subdiv: 1, pose: Iso::identity(), shape: 0 }],
        _ => env_layout(k),
    }
}

pub(crate) fn cell_for(c: &Case) -> CellDesc {
    let (b, t) = frames(c.frames);
    let mut cell = CellDesc::standard();
    cell.base = Some(b);
    cell.tool = Some(t);
    cell.envs = extra_layout(c.layout);
    cell.safety = if c.safety == 0 {
        SafetyDesc::touch(if c.ctor == 0 { 0 } else { 1 })
    } else if c.safety == 2 {
        // per-pair distances far larger than the defaults (forearm and tool against the first environment object, wrist against the base); tool against base exempt
        SafetyDesc { to_env: 0.0, to_robot: 0.0, special: vec![((3, rs_opw_kinematics::kinematic_traits::ENV_START_IDX), 0.12), ((rs_opw_kinematics::kinematic_traits::J_TOOL, rs_opw_kinematics::kinematic_traits::ENV_START_IDX), 0.15), ((4, rs_opw_kinematics::kinematic_traits::J_BASE), 0.1), ((rs_opw_kinematics::kinematic_traits::J_TOOL, rs_opw_kinematics::kinematic_traits::J_BASE), rs_opw_kinematics::collisions::NEVER_COLLIDES)], mode: 0 }
    } else {
        SafetyDesc { to_env: 0.03, to_robot: 0.03, special: vec![], mode: 0 }
    };
    cell.limits = if c.limits == 0 {
        Limits { from: [-3.1; 6], to: [3.1; 6], weight: 0.0 }
    } else if c.limits == 2 {
        Limits { from: [-1.0, -1.5, -2.8, -0.5, -2.0, -2.5], to: [2.5, 2.4, 2.8, 0.9, 2.0, 0.5], weight: 0.6 }
    } else if c.limits == 3 {
        // J4 and J6 ranges wrap through pi (from > to): allowed |x| >= 1.5 on J6
        Limits { from: [-3.1, -3.1, -3.1, 2.0, -3.1, 1.5], to: [3.1, 3.1, 3.1, -2.0, 3.1, -1.5], weight: 0.0 }
    } else if c.limits == 5 {
        // beyond half a turn on every joint: nothing the solver finds is ever out of range
        Limits { from: [-3.3; 6], to: [3.3; 6], weight: 0.0 }
    } else if c.limits == 4 {
        Limits { from: [-3.1, -3.1, -3.1, -3.1, -3.1, 0.7], to: [3.1, 3.1, 3.1, 3.1, 3.1, 0.7], weight: 0.25 }
    } else {
        // wide ranges whose centres are far from zero, so the CONSTRAINT_CENTERED reference differs from zeros
        Limits { from: [-1.0, -1.5, -2.8, -0.5, -2.0, -5.5], to: [4.5, 2.4, 2.8, 5.5, 2.0, 0.5], weight: 0.5 }
    };
    cell
}

/// The limits handed to the constructor. Variant 2 edits the public fields after construction: J4 released
/// (infinite tolerance), the centre of J6 moved, the centre of J1 placed one turn up.
fn constraints_for(c: &Case, cell: &CellDesc) -> Constraints {
    let mut cons = Constraints::new(cell.limits.from, cell.limits.to, cell.limits.weight);
    if c.limits == 2 {
        cons.tolerances[3] = f64::INFINITY;
        cons.centers[5] += 0.7;
        cons.tolerances[5] += 0.7;
        cons.centers[0] += 2.0 * std::f64::consts::PI;
    }
    cons
}

/// The underlying stack, built independently of the constructor under test: tool over base over the limited robot.
fn reference_stack(c: &Case, cell: &CellDesc) -> std::sync::Arc<dyn Kinematics> {
    use rs_opw_kinematics::kinematics_impl::OPWKinematics;
    use rs_opw_kinematics::tool::{Base, Tool};
    use std::sync::Arc;
    let (b, t) = frames(c.frames);
    let core = OPWKinematics::new_with_constraints(cell.params, constraints_for(c, cell));
    Arc::new(Tool { robot: Arc::new(Base { robot: Arc::new(core), base: to_na(&b) }), tool: to_na(&t) })
}

pub(crate) fn build(c: &Case, cell: &CellDesc) -> KinematicsWithShape {
    let (b, t) = frames(c.frames);
    let lm = link_meshes(&cell.subdiv).map(|m| m.to_parry());
    let cons = constraints_for(c, cell);
    let env: Vec<CollisionBody> = cell
        .envs
        .iter()
        .map(|e| CollisionBody { mesh: e.mesh().to_parry(), pose: to_na(&e.pose).cast::<f32>() })
        .collect();
    match c.ctor {
        0 | 1 => KinematicsWithShape::new(cell.params, cons, lm, base_mesh(1).to_parry(), to_na(&b), tool_mesh(1).to_parry(), to_na(&t), env, c.ctor == 0),
        2 => KinematicsWithShape::with_safety(cell.params, cons, lm, base_mesh(1).to_parry(), to_na(&b), tool_mesh(1).to_parry(), to_na(&t), env, cell.safety.build()),
        _ => {
            // built with collision checking switched off, switched on afterwards through the public field
            let mut r = KinematicsWithShape::with_safety(
                cell.params, cons, lm, base_mesh(1).to_parry(), to_na(&b), tool_mesh(1).to_parry(), to_na(&t), env,
                rs_opw_kinematics::collisions::SafetyDistances::standard(rs_opw_kinematics::collisions::CheckMode::NoCheck),
            );
            r.body.safety = cell.safety.build();
            r
        }
    }
}

fn bits(a: &nalgebra::Isometry3<f64>) -> [u64; 7] {
    let t = a.translation.vector;
    let q = a.rotation.quaternion().coords;
    [t.x.to_bits(), t.y.to_bits(), t.z.to_bits(), q[0].to_bits(), q[1].to_bits(), q[2].to_bits(), q[3].to_bits()]
}

pub fn eval(c: &Case) -> (Vec<(String, String)>, String) {
    let mut fails = Vec::new();
    let cell = cell_for(c);
    let robot = build(c, &cell);
    let inner = reference_stack(c, &cell);
    let given = constraints_for(c, &cell);
    let q = &c.q;
    let ctor = ["new-first", "new-all", "with_safety", "with_safety-then-field"][c.ctor];
    // the stack built by the constructor is base * robot * tool with the given limits
    let want = cell.tcp(q);
    let (dp, da) = pose_dist(&from_na(&robot.forward(q)), &want);
    if !(dp <= 1e-9 && da <= 1e-9) {
        fails.push((format!("C11/stack-forward/{ctor}"), format!("forward differs from base*robot*tool by {dp:e} m, {da:e} rad")));
    }
    let eq6 = |a: &[f64; 6], b: &[f64; 6]| (0..6).all(|i| a[i].to_bits() == b[i].to_bits());
    match robot.constraints() {
        Some(k)
            if eq6(&k.from, &given.from) && eq6(&k.to, &given.to) && eq6(&k.centers, &given.centers) && eq6(&k.tolerances, &given.tolerances)
                && k.sorting_weight == given.sorting_weight => {}
        other => fails.push((format!("C11/stack-constraints/{ctor}"), format!("constraints() = {other:?}, the limits given to the constructor are {given:?}"))),
    }
    // plain delegation, bit-equal
    // "those of the underlying stack": equal up to rounding (the reference stack is built by the harness, so a different
    // but equivalent order of floating-point operations inside the wrapper is not a violation)
    let close = |a: &nalgebra::Isometry3<f64>, b: &nalgebra::Isometry3<f64>| {
        let (dp, da) = pose_dist(&from_na(a), &from_na(b));
        bits(a) == bits(b) || (dp <= 1e-12 && da <= 1e-12)
    };
    if !close(&robot.forward(q), &inner.forward(q)) {
        fails.push((format!("C11/delegation/forward/{ctor}"), "forward differs from the underlying stack".into()));
    }
    let (la, lb) = (robot.forward_with_joint_poses(q), inner.forward_with_joint_poses(q));
    if (0..6).any(|i| !close(&la[i], &lb[i])) {
        fails.push((format!("C11/delegation/link-poses/{ctor}"), "forward_with_joint_poses differs from the underlying stack".into()));
    }
    if robot.kinematic_singularity(q).is_some() != inner.kinematic_singularity(q).is_some() {
        fails.push((format!("C11/delegation/singularity/{ctor}"), "kinematic_singularity differs from the underlying stack".into()));
    }
    // positioned robot
    let pr = robot.positioned_robot(q);
    let wl = cell.link_poses(q);
    if pr.joints.len() != 6 {
        fails.push((format!("C11/positioned/{ctor}"), format!("{} joints positioned", pr.joints.len())));
    } else {
        for i in 0..6 {
            let want32 = lb[i].cast::<f32>();
            let near32 = {
                let (dp, da) = pose_dist(&from_na(&pr.joints[i].transform.cast::<f64>()), &from_na(&want32.cast::<f64>()));
                dp <= 2e-6 && da <= 2e-6
            };
            if pr.joints[i].transform != want32 && !near32 {
                fails.push((format!("C11/positioned/{ctor}"), format!("link {} transform is not forward_with_joint_poses cast to f32", i + 1)));
                break;
            }
            let (dp, da) = pose_dist(&from_na(&pr.joints[i].transform.cast::<f64>()), &wl[i]);
            if !(dp <= 1e-5 && da <= 1e-5) {
                fails.push((format!("C11/positioned-vs-reference/{ctor}"), format!("link {} is {dp:e} m / {da:e} rad from the reference pose", i + 1)));
                break;
            }
        }
        match &pr.tool {
            Some(t) if {
                let (dp, da) = pose_dist(&from_na(&t.transform.cast::<f64>()), &from_na(&lb[5]));
                dp <= 2e-6 && da <= 2e-6
            } => {}
            _ => fails.push((format!("C11/positioned-tool/{ctor}"), "tool is not placed at link 6".into())),
        }
        if pr.environment.len() != cell.envs.len() {
            fails.push((format!("C11/positioned-environment/{ctor}"), "environment not passed through".into()));
        }
    }
    // a second robot in the same thread: same number of environment objects, each moved by 0.6 m (no environment: the other
    // safety setting). Queries on it are interleaved with the queries on the robot under test; nothing it is asked may
    // change what the robot under test answers (no state shared between instances)
    let other = {
        let mut oc = cell.clone();
        if oc.envs.is_empty() {
            oc.safety = if c.safety == 0 { SafetyDesc { to_env: 0.03, to_robot: 0.03, special: vec![], mode: 0 } } else { SafetyDesc::touch(0) };
        }
        for e in oc.envs.iter_mut() {
            e.pose = Iso::trans(0.0, 0.6, 0.0).mul(&e.pose);
        }
        let mut c2 = c.clone();
        c2.ctor = 2;
        build(&c2, &oc)
    };
    // the verdicts that decide which answers must survive come from a twin of the robot under test switched to
    // all-collisions mode (the filter itself runs the first-collision search): the two modes must agree on "collides at all"
    let twin = {
        let mut t = build(c, &cell);
        if !matches!(t.body.safety.mode, rs_opw_kinematics::collisions::CheckMode::NoCheck) {
            t.body.safety.mode = rs_opw_kinematics::collisions::CheckMode::AllCollsions;
        }
        t
    };
    let mut interference_differs = false;
    // the four inverse entry points = ordered filter of the underlying stack's answers
    let pose = to_na(&want);
    let mut prev_near = *q;
    prev_near[3] += 0.2;
    let mut kept_sig = String::new();
    let exact_prevs: Vec<Joints> = call(inner.as_ref(), Entry::Inverse, &pose, &prev_near, 0.4).unwrap_or_default();
    // J6 values handed to the 5-DOF entry point: ordinary, near the edge of a wrapping range, a whole turn away
    let j6s = [0.4, 2.9, 0.4 + 2.0 * std::f64::consts::PI];
    let mut call_no = 0usize;
    for (entry, prev) in ENTRIES.iter().flat_map(|e| {
        let mut v = vec![(*e, prev_near)];
        if e.uses_prev() {
            v.push((*e, rs_opw_kinematics::kinematic_traits::CONSTRAINT_CENTERED));
            v.push((*e, [2.0 * std::f64::consts::PI - 0.1, -4.0, 3.5, -5.0, 1.0, 6.0]));
            // the robot "already stands" on a solution: previous = each answer of the underlying stack itself, bit for bit
            // (colliding ones included)
            for s in &exact_prevs {
                v.push((*e, *s));
            }
        } else if *e == Entry::FiveDof {
            // the explicit-J6 entry point once per J6 argument (marked by the otherwise unused J1 slot of `prev`)
            v.push((*e, { let mut p = prev_near; p[0] = 1.0; p }));
            v.push((*e, { let mut p = prev_near; p[0] = 2.0; p }));
        }
        v
    }) {
        call_no += 1;
        let j6 = if entry == Entry::FiveDof { j6s[if prev[0] == 1.0 { 1 } else if prev[0] == 2.0 { 2 } else { 0 }] } else { j6s[call_no % 3] };
        let all = match call(inner.as_ref(), entry, &pose, &prev, j6) {
            Ok(s) => s,
            Err(m) => {
                fails.push((format!("C11/panic-inner/{}", entry.name()), m));
                continue;
            }
        };
        // the other robot is asked about the very vector the robot under test will check first
        if let Some(first) = all.first() {
            let theirs = other.collides(first);
            if theirs != !robot.collision_details(first).is_empty() {
                interference_differs = true;
            }
        }
        let got = match call(&robot, entry, &pose, &prev, j6) {
            Ok(s) => s,
            Err(m) => {
                fails.push((format!("C11/panic/{}/{ctor}", entry.name()), m));
                continue;
            }
        };
        // verdicts through collision_details (a different entry point than the filter itself uses), the last one asked first
        let want: Vec<Joints> = {
            let keep: Vec<bool> = all.iter().rev().map(|s| twin.collision_details(s).is_empty()).collect();
            all.iter().zip(keep.into_iter().rev()).filter(|(_, k)| *k).map(|(s, _)| *s).collect()
        };
        let same = got.len() == want.len() && got.iter().zip(want.iter()).all(|(a, b)| (0..6).all(|i| a[i].to_bits() == b[i].to_bits() || (a[i] - b[i]).abs() <= 1e-12));
        if !same {
            let as_set_equal = got.len() == want.len() && got.iter().all(|g| want.iter().any(|w| w == g));
            fails.push((
                format!("C11/{}/{}/{ctor}", if as_set_equal { "order-changed" } else { "not-the-filtered-list" }, entry.name()),
                format!("got {} answers {got:?}, ordered filter of the underlying {} answers gives {want:?}", got.len(), all.len()),
            ));
        }
        if entry == Entry::Continuing && !prev[0].is_nan() && kept_sig.is_empty() {
            kept_sig = format!("kept{}of{}", want.len(), all.len());
        }
    }
    (fails, format!("{ctor}:{kept_sig}{}", if interference_differs { ":other-robot-disagrees" } else { "" }))
}

fn case_json(c: &Case) -> Value {
    json!({"ctor": c.ctor, "frames": c.frames, "layout": c.layout, "safety": c.safety, "limits": c.limits, "q": nums(&c.q)})
}

pub fn run(ctx: &Ctx) -> Report {
    let thorough = !ctx.quick();
    let qs = crate::c10::postures(false);
    let qs: Vec<Joints> = if thorough { qs } else { qs.into_iter().step_by(5).collect() };
    let layouts = [0usize, 2, 3, 9, 10, 11, 12, 13];
    let sizes = [4, 3, layouts.len(), 3, 5, qs.len()];
    let n = par::product(&sizes);
    let mut rep = par::run(n, |idx, r| {
        let mut ix = [0usize; 6];
        par::decode(idx, &sizes, &mut ix);
        let c = Case { ctor: ix[0], frames: ix[1], layout: layouts[ix[2]], safety: ix[3], limits: ix[4], q: qs[ix[5]] };
        // the safety axis only exists for with_safety
        if c.ctor < 2 && c.safety >= 1 {
            return;
        }
        // quick tier: the three special limit variants on every second (constructor, frames, posture) combination
        if !thorough && c.limits >= 2 && (ix[0] + ix[1] + ix[5]) % 2 == 1 {
            return;
        }
        let (fails, sig) = eval(&c);
        r.states += 1;
        r.transitions += 12;
        r.sig(sig);
        if idx % 1013 == 0 {
            r.sample(|| case_json(&c));
        }
        for (k, d) in fails {
            r.fail(k, idx, case_json(&c), d);
        }
    });
    // --- more answers than the usual eight: next to the wrist singularity (J5 inside the 0.01 degree band but not zero) the
    // continuing entry point of the underlying stack adds answers that keep J4/J6 of the previous vector. J5 runs over a
    // magnitude ladder on both sides of 0; obstacles that block some arm branches and leave others free
    let near_sing: Vec<Joints> = {
        let mut v = Vec::new();
        for base in [[0.8, 0.4, 1.5, 0.3, 0.0, 0.2], [0.5, -0.3, 0.9, 1.0, 0.0, -0.4], [-0.6, 0.0, 1.9, -0.6, 0.0, 0.3]] {
            for m in [1e-7, 1e-6, 1e-5, 5e-5, 1e-4, 1.6e-4] {
                for sgn in [1.0, -1.0] {
                    let mut q = base;
                    q[4] = sgn * m;
                    v.push(q);
                }
            }
        }
        v
    };
    let slayouts = [2usize, 11, 12, 3];
    let ssizes = [4, 2, slayouts.len(), 2, near_sing.len()];
    let sn = par::product(&ssizes);
    let srep = par::run(sn, |idx, r| {
        let mut ix = [0usize; 5];
        par::decode(idx, &ssizes, &mut ix);
        let c = Case { ctor: ix[0], frames: [0, 2][ix[1]], layout: slayouts[ix[2]], safety: 0, limits: [5, 0][ix[3]], q: near_sing[ix[4]] };
        let (fails, sig) = eval(&c);
        r.states += 1;
        r.transitions += 12;
        r.sig(format!("near-singular:{sig}"));
        for (k, d) in fails {
            r.fail(format!("{k}/near-singular"), n + idx, case_json(&c), d);
        }
    });
    rep.merge(srep);
    let most = rep.signatures.iter().filter_map(|s| s.split("of").nth(1).and_then(|t| t.split(':').next()).and_then(|t| t.parse::<usize>().ok())).max().unwrap_or(0);
    rep.set("largest_underlying_answer_list", json!(most));
    let partial = rep.signatures.iter().any(|s| {
        s.split("kept").nth(1).and_then(|t| {
            let mut it = t.split(':').next().unwrap_or("").split("of");
            Some((it.next()?.parse::<usize>().ok()?, it.next()?.parse::<usize>().ok()?))
        }).map_or(false, |(k, n)| k > 0 && k < n)
    });
    if !rep.signatures.iter().any(|s| s.ends_with("other-robot-disagrees")) && rep.fails.is_empty() {
        rep.machinery_errors.push("the interleaved second robot never judged a vector differently from the robot under test".into());
    }
    if !partial && rep.fails.is_empty() {
        rep.machinery_errors.push("no case where collisions removed some but not all answers".into());
    }
    rep.traces_validated = rep.transitions;
    rep.rule = "constructors {new(first only), new(all), with_safety, with_safety(no check) followed by assigning the safety table through the public field} x base/tool isometries {identity, shifted, rotated} x environments {free, near, blocking \
                slab/wall/cage, ...} x safety {touch, 3 cm, touch with per-pair distances of 10-15 cm} x limits {wide, window+weight with off-zero centres, window with hand-set centres/tolerances, wrapping J4/J6 ranges, J6 unconstrained} x J6 arguments {0.4, 2.9, 0.4 + 2 pi} x postures x four inverse entry points x previous {near the solution, CONSTRAINT_CENTERED, far out, each answer of the underlying stack itself}; plus a sweep of J5 = +-{1e-7 .. 1.6e-4} (inside the singularity band, where the underlying continuing entry point returns more than eight answers) x 3 postures x 4 environments; oracle (differential): answers \
                == ordered filter of the underlying stack's answers by an empty collision_details of a twin robot in all-collisions mode, bit-equal, while a second robot (same environment size, obstacles moved / other safety) is asked about the first candidate just before each call; forward, link poses, singularity bit-equal to the underlying stack (tool over base over the limited robot, built independently from the same pieces); \
                stack == base*FK_ref*tool with the given limits; positioned_robot == link poses cast to f32, tool on link 6, environment passed through; \
                signature = (constructor, kept k of n)".into();
    rep.set("axes", json!({"constructors": 4, "frames": 3, "layouts": layouts.len(), "safety": 3, "limits": 5, "postures": qs.len()}));
    rep.assumptions.push("collides() itself is tied to the brute-force pair oracle by C10".into());
    rep
}

pub fn replay(case: &Value) -> Vec<String> {
    let u = |k: &str| case[k].as_u64().unwrap() as usize;
    let c = Case { ctor: u("ctor"), frames: u("frames"), layout: u("layout"), safety: u("safety"), limits: u("limits"), q: as_arr6(&case["q"]) };
    eval(&c).0.into_iter().map(|(k, d)| format!("{k}: {d}")).collect()
}
