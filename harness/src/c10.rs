//! C10 — collision verdicts equal a brute-force pairwise check at the safety distances.

use crate::common::cell::*;
use crate::common::ev::*;
use crate::common::geom::*;
use crate::common::m3::*;
use crate::common::par;
use rs_opw_kinematics::collisions::NEVER_COLLIDES;
use rs_opw_kinematics::kinematic_traits::{Joints, ENV_START_IDX, J_BASE, J_TOOL};
use serde_json::{json, Value};
use std::collections::BTreeSet;

fn env_box(lo: [f32; 3], hi: [f32; 3], n: usize) -> EnvObj {
    EnvObj { lo, hi, subdiv: n, pose: Iso::identity(), shape: 0 }
}

/// Environment layouts in world coordinates, built around the zero posture (see cell.rs for link boxes).
pub fn env_layout(k: usize) -> Vec<EnvObj> {
    let far = env_box([3.0, 3.0, 3.0], [3.2, 3.2, 3.2], 1);
    // forearm (link 4) at zero posture: x in [0.11,0.19], y +-0.04, z in [1.25,1.60]
    let near_l4 = |gap: f32| env_box([0.19 + gap, -0.1, 1.3], [0.31 + gap, 0.1, 1.5], 1);
    match k {
        0 => vec![],
        1 => vec![far],
        2 => vec![env_box([0.17, -0.1, 1.3], [0.30, 0.1, 1.5], 1)],
        3 => vec![near_l4(0.02)],
        4 => vec![near_l4(0.045)],
        5 => vec![near_l4(0.055)],
        // small, finely meshed cube 1 cm from the upper arm's +x face (upper arm: x in [0.10,0.20], z in [0.60,1.00])
        6 => vec![env_box([0.21, -0.01, 0.79], [0.23, 0.01, 0.81], 3)],
        // the same cube coarsely meshed (the link is the finer mesh in subdiv variant 1)
        7 => vec![env_box([0.21, -0.01, 0.79], [0.23, 0.01, 0.81], 1)],
        // a big open-frame-like box enclosing the tool (tool: x in [0.14,0.16], z in [1.80,2.05]) without touching it
        8 => vec![env_box([-0.05, -0.2, 1.75], [0.35, 0.2, 2.30], 2)],
        // box 2 cm from the tool
        9 => vec![env_box([0.18, -0.05, 1.9], [0.30, 0.05, 2.0], 1)],
        // a finely meshed octahedron (4 cm across, turned about two axes) 0.5-1 cm from the upper arm's +x face: entirely inside
        // a 5 cm margin, while the box around its *local* extent, turned with it, is larger than the body itself
        11 => vec![EnvObj { lo: [-0.02; 3], hi: [0.02; 3], subdiv: 3, pose: Iso::new(mmul(&rotz(0.7), &rotx(0.5)), [0.225, 0.0, 0.80]), shape: 1 }],
        // one mesh made of two separate cubes: one 1 cm from the upper arm, the other 0.9 m away
        12 => vec![EnvObj { lo: [0.21, -0.01, 0.79], hi: [0.23, 0.01, 0.81], subdiv: 3, pose: Iso::identity(), shape: 2 }],
        _ => vec![far, near_l4(0.02), env_box([0.18, -0.05, 1.9], [0.30, 0.05, 2.0], 2)],
    }
}
pub const N_LAYOUTS: usize = 13;

pub fn postures(thorough: bool) -> Vec<Joints> {
    let q1: &[f64] = if thorough { &[0.0, 0.8, -2.0] } else { &[0.0, 0.8] };
    let q2 = [0.0, 1.2, 2.2, -2.2];
    let q3 = [0.0, 1.5, 2.6, -2.6];
    let q4: &[f64] = if thorough { &[0.0, 1.0, -2.0] } else { &[0.0, 1.0] };
    let q5 = [0.0, 1.4, -1.4];
    let mut v = Vec::new();
    for a in q1 {
        for b in q2 {
            for c in q3 {
                for d in q4 {
                    for e in q5 {
                        v.push([*a, b, c, *d, e, 0.3]);
                    }
                }
            }
        }
    }
    v
}

fn base_tables() -> Vec<SafetyDesc> {
    vec![
        SafetyDesc::touch(1),
        SafetyDesc { to_env: 0.02, to_robot: 0.02, special: vec![], mode: 1 },
        SafetyDesc { to_env: 0.05, to_robot: 0.05, special: vec![], mode: 1 },
        SafetyDesc { to_env: 0.05, to_robot: 0.0, special: vec![], mode: 1 },
        SafetyDesc { to_env: 0.05, to_robot: 0.05, special: vec![((1, 3), 0.005), ((3, ENV_START_IDX), 0.01), ((J_TOOL, 2), 0.0)], mode: 1 },
        SafetyDesc { to_env: 0.0, to_robot: 0.0, special: vec![((ENV_START_IDX, 3), 0.08), ((5, J_BASE), 0.06), ((0, 4), 0.07)], mode: 1 },
        // a default of NEVER_COLLIDES switches a whole class of pairs off, except the pairs an override names
        SafetyDesc { to_env: NEVER_COLLIDES, to_robot: 0.02, special: vec![((3, ENV_START_IDX), 0.06), ((ENV_START_IDX, J_TOOL), 0.0), ((5, ENV_START_IDX), 0.03)], mode: 1 },
        SafetyDesc { to_env: 0.02, to_robot: NEVER_COLLIDES, special: vec![((1, 3), 0.05), ((4, 0), 0.0), ((J_TOOL, 2), 0.04), ((J_BASE, 3), 0.03)], mode: 1 },
        SafetyDesc { to_env: NEVER_COLLIDES, to_robot: NEVER_COLLIDES, special: vec![((2, ENV_START_IDX), 0.05), ((5, 1), 0.05)], mode: 1 },
    ]
}

/// Pair classes for which the oracle found a colliding pair somewhere in the run (coverage of the lattice, not of the code).
static CLASSES_HIT: std::sync::Mutex<BTreeSet<&'static str>> = std::sync::Mutex::new(BTreeSet::new());
static THOROUGH: std::sync::atomic::AtomicBool = std::sync::atomic::AtomicBool::new(false);
fn thorough_tier() -> bool {
    THOROUGH.load(std::sync::atomic::Ordering::Relaxed)
}

thread_local! {
    static DECOY: rs_opw_kinematics::kinematics_with_shape::KinematicsWithShape = {
        let mut cell = CellDesc::standard();
        cell.base = Some(Iso::new(rotz(1.1), [0.4, 0.3, -0.2]));
        cell.envs = vec![EnvObj { lo: [-0.6, -0.6, 0.2], hi: [0.6, 0.6, 1.6], subdiv: 1, pose: Iso::identity(), shape: 0 }];
        cell.safety = SafetyDesc { to_env: 0.2, to_robot: 0.0, special: vec![], mode: 0 };
        cell.robot()
    };
}

/// Rayon pools of 1, 2, 4, 8 and 16 threads, built once per process.
pub fn pools_1_to_16() -> &'static Vec<(usize, rayon::ThreadPool)> {
    static POOLS: std::sync::OnceLock<Vec<(usize, rayon::ThreadPool)>> = std::sync::OnceLock::new();
    POOLS.get_or_init(|| [1usize, 2, 4, 8, 16].iter().map(|&n| (n, rayon::ThreadPoolBuilder::new().num_threads(n).build().unwrap())).collect())
}

/// Rayon pools of every size from 1 to 16 (work is split by pool size, so sizes that do not divide the task count matter).
pub fn pools_every_size() -> &'static Vec<(usize, rayon::ThreadPool)> {
    static POOLS: std::sync::OnceLock<Vec<(usize, rayon::ThreadPool)>> = std::sync::OnceLock::new();
    POOLS.get_or_init(|| (1usize..=16).map(|n| (n, rayon::ThreadPoolBuilder::new().num_threads(n).build().unwrap())).collect())
}

fn set_of(v: &[(usize, usize)]) -> BTreeSet<(usize, usize)> {
    v.iter().map(|&(a, b)| (a.min(b), a.max(b))).collect()
}

fn pair_class(p: (usize, usize)) -> &'static str {
    let (a, b) = p;
    if b >= ENV_START_IDX {
        if a == J_TOOL { "tool-env" } else { "link-env" }
    } else if b == J_BASE {
        if a == J_TOOL { "tool-base" } else { "link-base" }
    } else if b == J_TOOL {
        "link-tool"
    } else {
        "link-link"
    }
}

pub struct Config {
    pub tool: bool,
    pub base: bool,
    pub moved_base: bool,
    pub layout: usize,
    pub subdiv_variant: usize,
    pub q: Joints,
}

impl Config {
    pub fn cell(&self) -> CellDesc {
        let mut c = CellDesc::standard();
        if !self.tool {
            c.tool = None;
        }
        if !self.base {
            c.base = None;
        } else if self.moved_base {
            c.base = Some(Iso::new(rotz(0.4), [0.3, -0.2, 0.1]));
        }
        if self.subdiv_variant == 1 {
            c.subdiv = [1, 3, 2, 1, 3, 2];
            c.tool_subdiv = 2;
            c.base_subdiv = 2;
        }
        c.envs = env_layout(self.layout);
        c
    }
    fn json(&self) -> Value {
        json!({"tool": self.tool, "base": self.base, "moved_base": self.moved_base, "layout": self.layout, "subdiv_variant": self.subdiv_variant, "q": nums(&self.q)})
    }
    fn from_json(v: &Value) -> Config {
        Config {
            tool: v["tool"].as_bool().unwrap(),
            base: v["base"].as_bool().unwrap(),
            moved_base: v["moved_base"].as_bool().unwrap(),
            layout: v["layout"].as_u64().unwrap() as usize,
            subdiv_variant: v["subdiv_variant"].as_u64().unwrap() as usize,
            q: as_arr6(&v["q"]),
        }
    }
}

/// One (config, body table, optional near table, mode) evaluation. Returns failures and a signature.
pub struct Prepared {
    pub robot: rs_opw_kinematics::kinematics_with_shape::KinematicsWithShape,
    pub dist: std::collections::BTreeMap<(usize, usize), f64>,
}

pub fn prepare(cfg: &Config) -> Prepared {
    let cell = cfg.cell();
    Prepared { robot: cell.robot(), dist: cell.pair_distances(&cfg.q) }
}

pub fn eval_one(cfg: &Config, body_table: &SafetyDesc, near_table: Option<&SafetyDesc>, pools: bool) -> (Vec<(String, String)>, String) {
    let mut p = prepare(cfg);
    eval_prepared(cfg, &mut p, body_table, near_table, pools)
}

/// The meshes and the oracle distances depend on the configuration only; the safety table is swapped in place.
pub fn eval_prepared(cfg: &Config, prep: &mut Prepared, body_table: &SafetyDesc, near_table: Option<&SafetyDesc>, pools: bool) -> (Vec<(String, String)>, String) {
    let mut fails = Vec::new();
    prep.robot.body.safety = body_table.build();
    let robot = &prep.robot;
    let dist = &prep.dist;
    let judged_table = near_table.unwrap_or(body_table);
    let (hit, boundary) = pairs_ref(dist, judged_table);
    if let Ok(mut seen) = CLASSES_HIT.lock() {
        for p in &hit {
            seen.insert(pair_class(*p));
        }
    }
    let never_tag = |t: &SafetyDesc| {
        t.special
            .iter()
            .find(|(_, v)| *v <= NEVER_COLLIDES)
            .map(|((a, b), _)| format!("/never({},{})", a, b))
            .unwrap_or_default()
    };
    // an unrelated robot of the same thread (other meshes poses, one obstacle through the arm, 20 cm safety) is asked
    // about the same joints first, through every entry point: no verdict may leak from one instance to another
    // (on a quarter of the evaluations, chosen by the bits of the joint vector and the table)
    let hq = cfg.q[1].to_bits() ^ cfg.q[2].to_bits().rotate_left(13) ^ cfg.q[4].to_bits().rotate_left(29) ^ (judged_table.to_env.to_bits() as u64).rotate_left(7) ^ (cfg.layout as u64);
    if (hq ^ (hq >> 33)) % 4 == 0 {
        DECOY.with(|d| {
            let _ = (d.collides(&cfg.q), d.collision_details(&cfg.q), d.near(&cfg.q, &SafetyDesc { to_env: 0.2, to_robot: 0.0, special: vec![], mode: 1 }.build()));
        });
    }
    let observed: Vec<(usize, usize)> = match near_table {
        Some(t) => robot.near(&cfg.q, &t.build()),
        None => robot.collision_details(&cfg.q),
    };
    let entry = if near_table.is_some() { "near" } else { "collision_details" };
    let mode = judged_table.mode;
    let obs = set_of(&observed);
    let ctx = format!("{}{}{}", entry, never_tag(body_table), near_table.map(|t| format!("/passed{}", never_tag(t))).unwrap_or_default());
    match mode {
        1 => {
            if obs.len() != observed.len() {
                fails.push((format!("C10/duplicate-pair/{ctx}"), format!("report lists a pair twice: {observed:?}")));
            }
            for p in &hit {
                if !obs.contains(p) {
                    fails.push((
                        format!("C10/missed-pair/{}/{ctx}", pair_class(*p)),
                        format!("pair {p:?} is {} m apart (limit {}), not reported; reported {observed:?}", dist[p], judged_table.r(p.0, p.1)),
                    ));
                }
            }
            for p in &obs {
                if !hit.contains(p) && !boundary.contains(p) {
                    fails.push((
                        format!("C10/spurious-pair/{}/{ctx}", pair_class(*p)),
                        format!("pair {p:?} reported; oracle distance {:?}, limit {}", dist.get(p), judged_table.r(p.0, p.1)),
                    ));
                }
            }
        }
        0 => {
            // (the statement asks for a subset containing at least one colliding pair: more than one is allowed)
            for p in &obs {
                if !hit.contains(p) && !boundary.contains(p) {
                    fails.push((format!("C10/spurious-pair/{}/{ctx}/first", pair_class(*p)), format!("pair {p:?} reported, oracle distance {:?}", dist.get(p))));
                }
            }
            if !hit.is_empty() && observed.is_empty() {
                fails.push((format!("C10/missed-pair/first/{ctx}"), format!("oracle pairs {hit:?}, nothing reported")));
            }
        }
        _ => {
            if !observed.is_empty() {
                fails.push((format!("C10/nocheck-reports/{ctx}"), format!("no-check mode reported {observed:?}")));
            }
        }
    }
    if near_table.is_none() {
        // boolean verdicts: KinematicsWithShape::collides and RobotBody::collides with the wrapped kinematics
        let want = !hit.is_empty();
        let decided = want || boundary.is_empty();
        for (name, got) in [
            ("collides", robot.collides(&cfg.q)),
            ("RobotBody::collides", robot.body.collides(&cfg.q, robot.kinematics.as_ref())),
        ] {
            if mode == 2 {
                if got {
                    fails.push((format!("C10/nocheck-collides/{name}"), "no-check mode but collides() is true".into()));
                }
            } else if decided && got != want {
                fails.push((
                    format!("C10/verdict/{}/{name}{}", if want { "missed" } else { "spurious" }, never_tag(body_table)),
                    format!("{name} = {got}, oracle pairs {hit:?}"),
                ));
            }
        }
        // a single colliding pair in first-collision mode is the sharpest case for the parallel search: exactly one task can
        // produce the result, wherever it sits in the task list; those cases run in pools of every size 1..16
        // (on a sixth of such cases, chosen by the bits of the joint vector, and on all of them in the thorough tier)
        let single_hit = mode == 0 && hit.len() == 1 && boundary.is_empty() && (thorough_tier() || (hq ^ (hq >> 17)) % 6 == 0);
        if (pools || single_hit) && mode != 2 {
            // schedules: in first-collision mode *which* hit is returned may differ (each must be a hit); the all-collisions
            // list and the boolean verdict must be identical for every pool size and every repetition
            for (threads, pool) in if single_hit { pools_every_size() } else { pools_1_to_16() } {
                let threads = *threads;
                for _rep in 0..(if single_hit && !pools { 1 } else { 3 }) {
                    let (det, col) = pool.install(|| (robot.collision_details(&cfg.q), robot.collides(&cfg.q)));
                    for p in set_of(&det) {
                        if !hit.contains(&p) && !boundary.contains(&p) {
                            fails.push((format!("C10/pool{threads}/spurious-pair"), format!("pair {p:?} reported in a {threads}-thread pool")));
                        }
                    }
                    if mode == 1 && set_of(&det) != obs {
                        fails.push((format!("C10/pool{threads}/report-differs"), format!("all-collisions report {det:?} in a {threads}-thread pool, {observed:?} in the default pool")));
                    }
                    if decided && (col != want || det.is_empty() == want) {
                        fails.push((format!("C10/pool{threads}/verdict"), format!("verdict differs in a {threads}-thread pool: collides={col} details={det:?} oracle={hit:?}")));
                    }
                }
            }
        }
    }
    let only = if hit.len() == 1 && mode == 0 { format!(":only{:?}", hit.iter().next().unwrap()) } else { String::new() };
    (fails, format!("{}:mode{}:hits{}{only}", entry, mode, hit.len().min(6)))
}

/// Own oracle against parry's exact queries on box pairs (sanity of the oracle itself).
fn validate_oracle(rep: &mut Report) {
    let a = Mesh::boxed([-0.05, -0.05, 0.1], [0.05, 0.05, 0.5], 1);
    let b = Mesh::boxed([-0.04, -0.04, 0.15], [0.04, 0.04, 0.5], 2);
    let pa = a.to_parry();
    let pb = b.to_parry();
    let mut worst = 0.0f64;
    let mut n = 0;
    for i in 0..6 {
        for j in 0..6 {
            for k in 0..4 {
                let pose = Iso::new(mmul(&rotx(0.3 * i as f64), &rotz(0.5 * j as f64)), [0.04 * j as f64, 0.03 * i as f64 - 0.05, 0.12 * k as f64]);
                let d = mesh_dist(&a.world_tris(&Iso::identity()), &b.world_tris(&pose));
                let na = to_na(&Iso::identity()).cast::<f32>();
                let nb = to_na(&pose).cast::<f32>();
                let dp = parry3d::query::distance(&na, &pa, &nb, &pb).unwrap() as f64;
                let ip = parry3d::query::intersection_test(&na, &pa, &nb, &pb).unwrap();
                if (d == 0.0) != ip && d.max(dp) > 1e-4 {
                    worst = worst.max(1.0);
                }
                worst = worst.max((d - dp).abs());
                n += 1;
            }
        }
    }
    rep.set("oracle_vs_parry_cases", json!(n));
    rep.set("oracle_vs_parry_worst_m", json!(worst));
    if worst > 1e-4 {
        rep.machinery_errors.push(format!("own mesh-distance oracle disagrees with parry's exact queries by {worst} m"));
    }
}

/// The atomic-task assumption: collisions.rs keeps no shared mutable state inside the parallel tasks.
fn audit_sources(rep: &mut Report) {
    if let Ok(src) = std::fs::read_to_string("/repo/src/collisions.rs") {
        let code: String = src.lines().filter(|l| !l.trim_start().starts_with("//")).collect::<Vec<_>>().join("\n");
        for bad in ["static mut", "thread_local!", "unsafe ", "RefCell", "Mutex", "AtomicBool", "AtomicUsize", "Cell<"] {
            if code.contains(bad) {
                // not a verdict and not a failure of the machinery: the schedule-independence clause then rests on the
                // differential pool runs alone, and the evidence says so
                rep.assumptions.push(format!("collisions.rs mentions `{bad}`: tasks may share state; schedule independence is covered only by the pool-size / repetition differential of this run"));
                rep.set("atomic_task_assumption_textually_established", json!(false));
            }
        }
    }
}


// ------------------------------------------------------------------ bundled RX160 meshes

/// The bundled Staubli RX160 STL meshes with the cell of the crate's own example. Oracle: parry's exact
/// `distance` / `intersection_test` called directly on every named pair (no pre-filter, no pair logic).
#[allow(deprecated)]
fn rx160_phase(rep: &mut Report, thorough: bool) {
    use parry3d::shape::TriMesh;
    use rs_opw_kinematics::collisions::{BaseBody, CollisionBody, RobotBody};
    use rs_opw_kinematics::constraints::Constraints;
    use rs_opw_kinematics::kinematics_impl::OPWKinematics;
    use rs_opw_kinematics::kinematics_with_shape::KinematicsWithShape;
    use rs_opw_kinematics::read_trimesh::load_trimesh_from_stl;
    use rs_opw_kinematics::tool::{Base, Tool};
    use std::sync::Arc;
    let dir = "/repo/src/tests/data/staubli/rx160";
    if !std::path::Path::new(&format!("{dir}/link_1.stl")).exists() {
        rep.assumptions.push("bundled RX160 meshes not found: STL phase skipped".into());
        return;
    }
    let load = |name: &str| -> TriMesh { load_trimesh_from_stl(name) };
    let links: Vec<TriMesh> = (1..=6).map(|i| load(&format!("{dir}/link_{i}.stl"))).collect();
    let base_mesh = load(&format!("{dir}/base_link.stl"));
    let tool_mesh = load("/repo/src/tests/data/flag.stl");
    let object = load("/repo/src/tests/data/object.stl");
    let params = crate::common::robots::make(0.15, 0.0, 0.0, [0.55, 0.825, 0.625, 0.11], [1; 6], [0.0; 6], 6);
    let base_iso = Iso::trans(0.4, 0.7, 0.0);
    let tool_iso = Iso::trans(0.0, 0.0, 0.5);
    let env_poses = [Iso::trans(1.0, 0.0, 0.0), Iso::trans(-0.35, 0.75, 0.0), Iso::trans(0.4, 1.45, 0.3)];
    let tables = vec![
        SafetyDesc::touch(1),
        SafetyDesc { to_env: 0.05, to_robot: 0.05, mode: 1, special: vec![((1, J_BASE), NEVER_COLLIDES), ((2, J_BASE), NEVER_COLLIDES), ((1, 3), NEVER_COLLIDES), ((2, 3), NEVER_COLLIDES), ((3, J_TOOL), 0.02), ((3, 5), 0.02)] },
        SafetyDesc { to_env: 0.12, to_robot: 0.03, mode: 0, special: vec![((J_BASE, 1), NEVER_COLLIDES), ((0, 2), NEVER_COLLIDES)] },
    ];
    let robots: Vec<KinematicsWithShape> = tables
        .iter()
        .map(|t| {
            let core = OPWKinematics::new_with_constraints(params, Constraints::new([-3.9; 6], [3.9; 6], 0.0));
            let kin = Tool { robot: Arc::new(Base { robot: Arc::new(core), base: to_na(&base_iso) }), tool: to_na(&tool_iso) };
            crate::common::cell::assemble(
                Arc::new(kin),
                RobotBody {
                    joint_meshes: [links[0].clone(), links[1].clone(), links[2].clone(), links[3].clone(), links[4].clone(), links[5].clone()],
                    tool: Some(tool_mesh.clone()),
                    base: Some(BaseBody { mesh: base_mesh.clone(), base_pose: to_na(&base_iso).cast::<f32>() }),
                    collision_environment: env_poses.iter().map(|p| CollisionBody { mesh: object.clone(), pose: to_na(p).cast::<f32>() }).collect(),
                    safety: t.build(),
                },
            )
        })
        .collect();
    let mut qs: Vec<Joints> = Vec::new();
    for a in [0.0, 0.9, -2.2] {
        for b in [-1.0, 0.0, 1.0, 2.0] {
            for c in [-2.4, -1.2, 0.0, 1.2, 2.4] {
                for d in [0.0, 1.5] {
                    for e in [-1.8, 0.0, 1.8] {
                        qs.push([a, b, c, d, e, 0.4]);
                    }
                }
            }
        }
    }
    let stride = if thorough { 1 } else { 9 };
    let qs: Vec<Joints> = qs.into_iter().step_by(stride).collect();
    let sub = par::run(qs.len() as u64, |idx, r| {
        let q = qs[idx as usize];
        let l = crate::common::fkref::links(&params, &q).map(|x| base_iso.mul(&x));
        let mut bodies: Vec<(usize, &TriMesh, nalgebra::Isometry3<f32>)> = Vec::new();
        for i in 0..6 {
            bodies.push((i, &links[i], to_na(&l[i]).cast::<f32>()));
        }
        bodies.push((J_TOOL, &tool_mesh, to_na(&l[5]).cast::<f32>()));
        bodies.push((J_BASE, &base_mesh, to_na(&base_iso).cast::<f32>()));
        for (k, p) in env_poses.iter().enumerate() {
            bodies.push((ENV_START_IDX + k, &object, to_na(p).cast::<f32>()));
        }
        let mut dist = std::collections::BTreeMap::new();
        for x in 0..bodies.len() {
            for y in (x + 1)..bodies.len() {
                let (a, b) = (bodies[x].0, bodies[y].0);
                if relevant_pair(a, b) {
                    let touching = parry3d::query::intersection_test(&bodies[x].2, bodies[x].1, &bodies[y].2, bodies[y].1).unwrap();
                    let d = if touching { 0.0 } else { parry3d::query::distance(&bodies[x].2, bodies[x].1, &bodies[y].2, bodies[y].1).unwrap() as f64 };
                    dist.insert((a.min(b), a.max(b)), d);
                }
            }
        }
        r.states += 1;
        for (ti, t) in tables.iter().enumerate() {
            let (hit, boundary) = pairs_ref(&dist, t);
            let robot = &robots[ti];
            let observed = robot.collision_details(&q);
            let obs = set_of(&observed);
            let col = robot.collides(&q);
            r.transitions += 2;
            r.sig(format!("rx160:table{ti}:hits{}", hit.len().min(5)));
            let case = || json!({"kind": "rx160", "table": ti, "q": nums(&q)});
            if t.mode == 1 {
                for p in &hit {
                    if !obs.contains(p) {
                        r.fail(format!("C10/rx160/missed-pair/{}", pair_class(*p)), idx, case(), format!("pair {p:?} is {} m apart (limit {}), not reported; reported {observed:?}", dist[p], t.r(p.0, p.1)));
                    }
                }
            } else if !hit.is_empty() && observed.is_empty() {
                r.fail("C10/rx160/missed-pair/first".to_string(), idx, case(), format!("oracle pairs {hit:?}, nothing reported"));
            }
            for p in &obs {
                if !hit.contains(p) && !boundary.contains(p) {
                    r.fail(format!("C10/rx160/spurious-pair/{}", pair_class(*p)), idx, case(), format!("pair {p:?} reported, exact distance {:?}, limit {}", dist.get(p), t.r(p.0, p.1)));
                }
            }
            if (!hit.is_empty() || boundary.is_empty()) && col != !hit.is_empty() {
                r.fail("C10/rx160/verdict".to_string(), idx, case(), format!("collides = {col}, oracle pairs {hit:?}"));
            }
        }
    });
    rep.set("rx160_postures", json!(qs.len()));
    rep.merge(sub);
}

pub fn run(ctx: &Ctx) -> Report {
    let thorough = !ctx.quick();
    THOROUGH.store(thorough, std::sync::atomic::Ordering::Relaxed);
    let mut qs = postures(thorough);
    // wrist folded back so far that the tool comes within the safety distance of the forearm (the tool-vs-link pairs are
    // hit in no posture of the product lattice); these always take part in the exemption sweeps
    let n_product = qs.len();
    qs.extend([[0.0, 0.0, 0.0, 0.0, 2.5, 0.3], [0.8, 1.2, 1.5, 1.0, -2.5, 0.3], [0.0, 0.0, 2.2, 0.0, 2.8, 0.3], [0.0, 1.2, 2.6, 1.0, 2.5, 0.3], [0.8, 0.0, 1.5, 0.0, -2.8, 0.3]]);
    let presence = [(true, true, false), (true, false, false), (false, true, false), (false, false, false), (true, true, true)];
    let sizes = [presence.len(), N_LAYOUTS, 2, qs.len()];
    let n = par::product(&sizes);
    let tables = base_tables();
    let mut rep = par::run(n, |idx, r| {
        let mut ix = [0usize; 4];
        par::decode(idx, &sizes, &mut ix);
        let (tool, base, moved) = presence[ix[0]];
        let cfg = Config { tool, base, moved_base: moved, layout: ix[1], subdiv_variant: ix[2], q: qs[ix[3]] };
        // quick tier: every posture for the richest presence variant, every 4th posture otherwise
        if !thorough && ix[0] != 0 && (ix[3] + ix[1]) % 4 != 0 && ix[3] < n_product {
            return;
        }
        // quick tier: the finely meshed variant (by far the most expensive for the brute-force oracle) on every second posture
        if !thorough && ix[2] == 1 && (ix[3] + ix[1]) % 2 == 1 && ix[3] < n_product {
            return;
        }
        r.states += 1;
        let mut prep = prepare(&cfg);
        let mut record = |fails: Vec<(String, String)>, sig: String, extra: Value, r: &mut Report| {
            r.transitions += 1;
            r.sig(sig);
            for (k, d) in fails {
                r.fail(k, idx, json!({"config": cfg.json(), "eval": extra}), d);
            }
        };
        for (ti, t) in tables.iter().enumerate() {
            for mode in [1u8, 0, 2] {
                if mode == 2 && ti != 2 {
                    continue;
                }
                let mut tt = t.clone();
                tt.mode = mode;
                let pools = (mode == 0 || mode == 1) && ti == 2 && ix[3] % 16 == 0;
                let (f, s) = eval_prepared(&cfg, &mut prep, &tt, None, pools);
                record(f, s, json!({"body_table": tt.json(), "near_table": null, "pools": pools}), r);
            }
        }
        // NEVER_COLLIDES on each candidate pair, both key orders, on top of the 5 cm table; and near() with differing tables
        if ix[3] % 8 == 0 || thorough || ix[3] >= n_product {
            let dist = prep.dist.clone();
            let t2 = &tables[2];
            let (hit, _) = pairs_ref(&dist, t2);
            let mut candidates: Vec<(usize, usize)> = hit.iter().cloned().collect();
            // plus the pairs naming J1 and the base, which the code treats specially
            for p in [(0usize, 2usize), (0, 3), (0, 4), (0, 5), (1, J_BASE), (4, J_BASE), (J_TOOL, J_BASE)] {
                if dist.contains_key(&p) && !candidates.contains(&p) {
                    candidates.push(p);
                }
            }
            for p in candidates {
                for flip in [false, true] {
                    let key = if flip { (p.1, p.0) } else { p };
                    let mut tn = t2.clone();
                    tn.special.push((key, NEVER_COLLIDES));
                    let (f, s) = eval_prepared(&cfg, &mut prep, &tn, None, false);
                    record(f, s, json!({"body_table": tn.json(), "near_table": null, "pools": false}), r);
                    if !flip {
                        // near(): exemptions and distances come from the table passed in
                        let (f, s) = eval_prepared(&cfg, &mut prep, t2, Some(&tn), false);
                        record(f, s, json!({"body_table": t2.json(), "near_table": tn.json(), "pools": false}), r);
                        let (f, s) = eval_prepared(&cfg, &mut prep, &tn, Some(t2), false);
                        record(f, s, json!({"body_table": tn.json(), "near_table": t2.json(), "pools": false}), r);
                    }
                }
            }
            // "... and only those pairs": an exemption on a *sibling* pair (one body in common with a colliding pair) must leave
            // the colliding pair reported. Every named pair sharing a body with a colliding one is exempted in turn
            // (key order alternating; both orders in the thorough tier)
            let mut siblings: Vec<(usize, usize)> = Vec::new();
            for h in hit.iter() {
                for s in dist.keys() {
                    let shares = s.0 == h.0 || s.0 == h.1 || s.1 == h.0 || s.1 == h.1;
                    if shares && !hit.contains(s) && !siblings.contains(s) {
                        siblings.push(*s);
                    }
                }
            }
            // quick tier: on the richest cell (tool and base in place) and on the folded-wrist postures
            let siblings = if thorough || ix[0] == 0 || ix[3] >= n_product { siblings } else { Vec::new() };
            for (si, p) in siblings.into_iter().enumerate() {
                for flip in [false, true] {
                    if !thorough && flip != ((si + ix[3]) % 2 == 1) {
                        continue;
                    }
                    let key = if flip { (p.1, p.0) } else { p };
                    let mut tn = t2.clone();
                    tn.special.push((key, NEVER_COLLIDES));
                    let (f, s) = eval_prepared(&cfg, &mut prep, &tn, None, false);
                    record(f, format!("sibling-exempt:{s}"), json!({"body_table": tn.json(), "near_table": null, "pools": false}), r);
                }
            }
            // near() with plainly different distances
            let (f, s) = eval_prepared(&cfg, &mut prep, &tables[0], Some(&tables[2]), false);
            record(f, s, json!({"body_table": tables[0].json(), "near_table": tables[2].json(), "pools": false}), r);
        }
        if idx % 997 == 0 {
            r.sample(|| cfg.json());
        }
    });
    {
        let seen = CLASSES_HIT.lock().map(|s| s.clone()).unwrap_or_default();
        rep.set("pair_classes_with_an_oracle_hit", json!(seen.iter().collect::<Vec<_>>()));
        for class in ["link-link", "link-env", "tool-env", "link-base", "tool-base", "link-tool"] {
            if !seen.contains(class) {
                rep.machinery_errors.push(format!("no posture of the lattice brings a {class} pair within its safety distance"));
            }
        }
    }
    rx160_phase(&mut rep, thorough);
    validate_oracle(&mut rep);
    audit_sources(&mut rep);
    rep.traces_validated = rep.transitions;
    rep.rule = "synthetic box robot (vertex counts varied by face subdivision) x presence of tool/base (incl. a moved base) x 13 environment layouts (incl. a turned octahedron and a two-piece mesh inside the safety margin) \
                (none, far, intersecting, gaps 0.4r/0.9r/1.1r, finely/coarsely meshed small body inside the inflated box of a link, enclosing body, near the tool, \
                several objects) x postures (folded elbow, leaning into base, wrist folded back until the tool nears the forearm, ...) x safety tables (touch, 2 cm, 5 cm, mixed, per-pair overrides smaller/larger, \
                NEVER_COLLIDES on each candidate pair in both key orders, and on every named pair sharing a body with a colliding pair) x modes x entry points {collision_details, collides, RobotBody::collides, near with a \
                table different from the body's}; oracle PAIRS_ref: all named pairs decided by an own f64 triangle-triangle distance without any pre-filter; \
                pairs within 1 mm of their limit are not judged; first-collision mode re-run in rayon pools of 1,2,4,8,16 threads, and in pools of every size 1..16 whenever exactly one pair collides; plus the bundled RX160 STL meshes in the cell of the crate's example against parry's exact queries; \
                signature = (entry, mode, number of oracle pairs)".into();
    rep.set("axes", json!({"presence_variants": presence.len(), "layouts": N_LAYOUTS, "subdiv_variants": 2, "postures": qs.len(), "tables": tables.len()}));
    rep.assumptions.push("tasks evaluated by rayon are expected to be pure (textual audit of collisions.rs, recorded in the evidence); reports are compared across pools of 1,2,4,8,16 threads and 3 repetitions".into());
    rep.assumptions.push("'intersects' is surface intersection of the triangle meshes, as in the implementation; no layout nests closed bodies surface-disjointly within a limit".into());
    rep
}

pub fn replay(case: &Value) -> Vec<String> {
    if case["kind"] == "rx160" {
        let mut r = Report::new();
        rx160_phase(&mut r, true);
        let q = case["q"].clone();
        return r.fails.iter().filter(|f| f.case["q"] == q).map(|f| format!("{}: {}", f.key, f.detail)).collect();
    }
    let cfg = Config::from_json(&case["config"]);
    let e = &case["eval"];
    let bt = SafetyDesc::from_json(&e["body_table"]);
    let nt = if e["near_table"].is_null() { None } else { Some(SafetyDesc::from_json(&e["near_table"])) };
    eval_one(&cfg, &bt, nt.as_ref(), e["pools"].as_bool().unwrap_or(false)).0.into_iter().map(|(k, d)| format!("{k}: {d}")).collect()
}
