//! C13 — a returned RRT path joins start to goal through collision-free configurations.
//! E3: the planner's only nondeterminism (the sample sequence) is scripted through the ScriptedRng hook and
//! enumerated as a tree (default-first, every deviation at every consumed position).

use crate::common::arc::*;
use crate::common::cell::*;
use crate::common::ev::*;
use crate::common::m3::*;
use crate::common::stack::{panic_message, Limits};
use rs_opw_kinematics::kinematic_traits::Joints;
use rs_opw_kinematics::rrt::RRTPlanner;
use rs_opw_kinematics::verif_hooks;
use serde_json::{json, Value};
use std::f64::consts::PI;
use std::panic::{catch_unwind, AssertUnwindSafe};
use std::sync::atomic::{AtomicBool, AtomicUsize, Ordering};
use std::sync::Arc;

const TWO52: f64 = 4503599627370496.0;

#[derive(Clone, Debug)]
pub struct Scenario {
    pub layout: usize, // 0 free, 1 pillar between start and goal, 2 cage around the tool at the start, 3 free cell with collision checking switched off (CheckMode::NoCheck)
    pub limits: usize, // 0 wide, 1 narrower window, 2 wrapping on J4/J6, 3 non-wrapping but reaching beyond +-pi (J1 in 0..270 deg)
    pub step: f64,
    pub max_try: usize,
    pub pair: usize, // 0 the standard start/goal, 1 a pair hugging the lower J1 limit of limit set 3, 2 a pair differing in all six joints, 3 a pair 0.03 rad apart (for sub-milliradian steps)
}

pub const START: Joints = [0.0, 0.3, 0.3, 0.0, 0.5, 0.0];
pub const GOAL: Joints = [1.2, 0.3, 0.3, 0.0, 0.5, 0.0];

impl Scenario {
    pub fn limits_history(&self) -> usize {
        self.layout + 2 * self.limits + self.max_try + self.pair + (self.step * 100.0) as usize
    }
    pub fn start(&self) -> Joints {
        match self.pair {
            1 => [0.02, 0.3, 0.3, 0.0, 0.5, 0.0],
            2 => [0.5, 0.8, 0.4, 0.3, -0.6, 0.2],
            3 => [0.1, 0.3, 0.3, 0.0, 0.5, 0.0],
            4 | 5 => [0.0, 0.25, 0.3, 0.0, 0.5, 0.0],
            _ => START,
        }
    }
    pub fn goal(&self) -> Joints {
        match self.pair {
            1 => [0.02, 0.6, 0.3, 0.0, 0.5, 0.0],
            2 => [-0.7, -0.4, 1.0, -0.5, 0.9, -0.3],
            3 => [0.13, 0.31, 0.3, 0.0, 0.5, 0.0],
            // the start again up to rounding residue (1e-17, cos(pi/2)) / the start itself
            4 => [1e-17, 0.25, 0.3, 6.123233995736766e-17, 0.5, -6.123233995736766e-17],
            5 => [0.0, 0.25, 0.3, 0.0, 0.5, 0.0],
            _ => GOAL,
        }
    }
}

pub fn scenario_cell(s: &Scenario) -> CellDesc {
    let mut cell = CellDesc::standard();
    cell.safety = SafetyDesc::touch(if s.layout == 3 { 2 } else { 0 });
    cell.envs = match s.layout {
        1 => {
            // pillar at azimuth 0.6 rad, radius 0.6 m, in the height band the forearm sweeps
            let (cx, cy) = (0.6 * 0.6f64.cos(), 0.6 * 0.6f64.sin());
            vec![EnvObj {
                lo: [(cx - 0.05) as f32, (cy - 0.05) as f32, 1.0],
                hi: [(cx + 0.05) as f32, (cy + 0.05) as f32, 2.4],
                subdiv: 1,
                pose: Iso::identity(),
                shape: 0,
            }]
        }
        2 => {
            // a ring of four plates around the tool of the start posture (tool frame), 6 mm clearance
            let f = cell.link_poses(&START)[5];
            let plate = |lo: [f32; 3], hi: [f32; 3]| EnvObj { lo, hi, subdiv: 1, pose: f, shape: 0 };
            vec![
                plate([0.016, -0.05, 0.05], [0.03, 0.05, 0.2]),
                plate([-0.03, -0.05, 0.05], [-0.016, 0.05, 0.2]),
                plate([-0.05, 0.016, 0.05], [0.05, 0.03, 0.2]),
                plate([-0.05, -0.03, 0.05], [0.05, -0.016, 0.2]),
            ]
        }
        _ => vec![],
    };
    cell.limits = match s.limits {
        1 => Limits { from: [-0.5, -1.0, -1.0, -1.0, -1.0, -1.0], to: [1.5, 1.2, 1.2, 1.0, 1.5, 1.0], weight: 0.0 },
        2 => Limits { from: [-3.1, -3.1, -3.1, 4.0, -3.1, 5.0], to: [3.1, 3.1, 3.1, 2.0, 3.1, 1.0], weight: 0.0 },
        3 => Limits { from: [0.0, -3.1, -3.1, -3.1, -3.1, -1.0], to: [1.5 * PI, 3.1, 3.1, 3.1, 3.1, 5.5], weight: 0.0 },
        _ => Limits { from: [-3.1; 6], to: [3.1; 6], weight: 0.0 },
    };
    cell
}

/// The sample alphabet, simplest first.
pub fn alphabet(s: &Scenario, k: usize) -> Joints {
    match k {
        0 => s.goal(),
        1 => s.start(),
        2 => [0.6, 0.3, 0.3, 0.0, 0.5, 0.0],   // into the pillar
        3 => [0.6, -0.3, -0.2, 0.0, 0.5, 0.0], // arm raised: passes behind / above the pillar
        4 => [1.4, 1.0, 1.0, 0.9, 1.4, 0.9],   // a far corner
        // beyond +-pi on J1 and J6 (legal only for the limit set that reaches there; clamped to the range otherwise)
        5 => [3.6, 0.3, 0.3, 0.0, 0.5, 4.2],
        6 => [0.9, 0.6, -0.1, 0.5, 0.2, -0.6],
        7 => [0.6, 0.9, 0.9, -0.4, -0.8, 0.3],  // arm lowered: passes under / in front of the pillar
        _ => [-0.4, 0.3, 0.3, 0.0, 0.5, 0.0],   // beyond the start, away from the goal
    }
}

/// raw draw that makes the library's sampler return `v` for joint limits [from,to]
fn raw_for(from: f64, to: f64, v: f64) -> u64 {
    let u = if from < to {
        (v - from) / (to - from)
    } else {
        let len = (to - from).rem_euclid(2.0 * PI);
        let x = v.rem_euclid(2.0 * PI);
        let f = from.rem_euclid(2.0 * PI);
        (x - f).rem_euclid(2.0 * PI) / len
    };
    let k = (u.clamp(0.0, 1.0 - 1e-15) * TWO52) as u64;
    k << 12
}

#[derive(Debug)]
pub struct Run {
    pub result: Result<Vec<Joints>, String>,
    pub consumed_samples: usize,
    pub panicked: Option<String>,
}

/// One execution of the real planner with the scripted sample sequence (defaults to alphabet 0 past the prefix).
/// `cancel_at`: raise the stop flag inside the first draw of that sample (0-based), or before the call (usize::MAX-1).
pub fn execute(s: &Scenario, robot: &rs_opw_kinematics::kinematics_with_shape::KinematicsWithShape, lim: &Limits, seq: &[usize], cancel_at: Option<usize>) -> Run {
    let planner = RRTPlanner { step_size_joint_space: s.step, max_try: s.max_try, debug: false };
    let stop = Arc::new(AtomicBool::new(false));
    let seq_owned: Vec<usize> = seq.to_vec();
    let s_owned = s.clone();
    let lim2 = *lim;
    let stop2 = stop.clone();
    let draws = Arc::new(AtomicUsize::new(0));
    let draws2 = draws.clone();
    if cancel_at == Some(usize::MAX) {
        stop.store(true, Ordering::SeqCst);
    }
    verif_hooks::arm_local_script(Box::new(move |i| {
        draws2.store(i + 1, Ordering::SeqCst);
        let sample = i / 6;
        let joint = i % 6;
        if joint == 0 && cancel_at == Some(sample) {
            stop2.store(true, Ordering::SeqCst);
        }
        let a = alphabet(&s_owned, *seq_owned.get(sample).unwrap_or(&0));
        raw_for(lim2.from[joint], lim2.to[joint], a[joint])
    }));
    let r = catch_unwind(AssertUnwindSafe(|| planner.plan_rrt(&s.start(), &s.goal(), robot, &stop)));
    let consumed = verif_hooks::disarm_local_script();
    let _ = draws;
    match r {
        Ok(result) => Run { result, consumed_samples: (consumed + 5) / 6, panicked: None },
        Err(p) => Run { result: Err("panic".into()), consumed_samples: (consumed + 5) / 6, panicked: Some(panic_message(&p)) },
    }
}

pub fn judge(s: &Scenario, robot: &rs_opw_kinematics::kinematics_with_shape::KinematicsWithShape, lim: &Limits, run: &Run, cancel_at: Option<usize>) -> Vec<(String, String)> {
    let mut fails = Vec::new();
    let tag = format!("layout{}/limits{}", s.layout, s.limits);
    if let Some(m) = &run.panicked {
        fails.push((format!("C13/panic/{tag}"), m.clone()));
        return fails;
    }
    match cancel_at {
        Some(usize::MAX) => {
            if run.result.is_ok() {
                fails.push(("C13/cancelled-before-start-returned-path".to_string(), "stop flag was raised before the call, a path was returned".into()));
            }
        }
        Some(k) => {
            // the flag went up inside sample k: at most that iteration may still complete
            if run.consumed_samples > k + 1 {
                fails.push((
                    "C13/cancellation-ignored".to_string(),
                    format!("flag raised during sample {k}, the planner went on to draw {} samples", run.consumed_samples),
                ));
            }
        }
        None => {}
    }
    let Ok(path) = &run.result else { return fails };
    if path.first().map(|p| p.map(f64::to_bits)) != Some(s.start().map(f64::to_bits)) {
        fails.push((format!("C13/path-start/{tag}"), format!("path begins with {:?}", path.first())));
    }
    if path.last().map(|p| p.map(f64::to_bits)) != Some(s.goal().map(f64::to_bits)) {
        fails.push((format!("C13/path-goal/{tag}"), format!("path ends with {:?}", path.last())));
    }
    for (i, node) in path.iter().enumerate() {
        if robot.collides(node) {
            fails.push((format!("C13/node-collides/{tag}"), format!("node {i} {node:?} is reported colliding")));
            break;
        }
    }
    for w in path.windows(2) {
        let d: f64 = (0..6).map(|i| (w[0][i] - w[1][i]).powi(2)).sum::<f64>().sqrt();
        if !(d <= 3.0 * s.step * (1.0 + 1e-12)) {
            fails.push((format!("C13/step-too-long/{tag}"), format!("consecutive nodes are {d} apart, step is {}", s.step)));
            break;
        }
    }
    if s.limits != 2 {
        for (i, node) in path.iter().enumerate() {
            if arc_member6(&lim.from, &lim.to, node, 1e-9) == ArcVerdict::Outside {
                fails.push((format!("C13/node-outside-limits/{tag}"), format!("node {i} {node:?} violates the limits")));
                break;
            }
            // non-wrapping limits are plain intervals: start, goal and every sample lie in them, so every node must too
            if (0..6).any(|j| node[j] < lim.from[j] - 1e-9 || node[j] > lim.to[j] + 1e-9) {
                fails.push((format!("C13/node-outside-limit-interval/{tag}"), format!("node {i} {node:?} leaves the interval [{:?}, {:?}]", lim.from, lim.to)));
                break;
            }
        }
    }
    fails
}

struct Explored {
    executions: u64,
    fails: Vec<(String, String, Value)>,
    sigs: Vec<String>,
    transitions: u64,
}

/// One node of the exploration tree: run the planner with `prefix` (defaults after it), judge it, inject the
/// cancellations, and return the children: every position the run consumed beyond the prefix branches into
/// every non-default alphabet member.
fn explore_node(
    s: &Scenario,
    robot: &rs_opw_kinematics::kinematics_with_shape::KinematicsWithShape,
    lim: &Limits,
    k_alpha: usize,
    with_cancel: bool,
    prefix: &[usize],
    out: &mut Explored,
) -> Vec<Vec<usize>> {
    let run = execute(s, robot, lim, prefix, None);
    out.executions += 1;
    out.transitions += run.consumed_samples as u64;
    let consumed = run.consumed_samples;
    let case = |cancel: Option<usize>| json!({"scenario": {"layout": s.layout, "limits": s.limits, "step": s.step, "max_try": s.max_try, "pair": s.pair}, "samples": prefix, "cancel_at": cancel.map(|c| if c == usize::MAX { -1 } else { c as i64 })});
    for (k, d) in judge(s, robot, lim, &run, None) {
        out.fails.push((k, d, case(None)));
    }
    out.sigs.push(match &run.result {
        Ok(p) => format!("ok:len{}:samples{}", p.len().min(60), consumed),
        Err(e) => format!("err:{}:samples{}", e, consumed),
    });
    // replay determinism: the same script must give the same observation (every node whose prefix sums to 0 mod 8)
    if prefix.iter().sum::<usize>() % 8 == 0 {
        let again = execute(s, robot, lim, prefix, None);
        if format!("{:?}", again.result) != format!("{:?}", run.result) || again.consumed_samples != consumed {
            out.fails.push(("C13/machinery/nondeterministic-replay".into(), "same script, different observation".into(), case(None)));
        }
    }
    if with_cancel {
        for k in 0..consumed.max(1) {
            let r = execute(s, robot, lim, prefix, Some(k));
            out.executions += 1;
            for (key, d) in judge(s, robot, lim, &r, Some(k)) {
                out.fails.push((key, d, case(Some(k))));
            }
            out.sigs.push(format!("cancel:{}", if r.result.is_ok() { "completed-before-next-poll" } else { "err" }));
        }
    }
    if prefix.is_empty() {
        // cancellation before the call
        let r = execute(s, robot, lim, &[], Some(usize::MAX));
        out.executions += 1;
        for (key, d) in judge(s, robot, lim, &r, Some(usize::MAX)) {
            out.fails.push((key, d, case(Some(usize::MAX))));
        }
    }
    let mut children = Vec::new();
    for pos in prefix.len()..consumed {
        for alt in 1..k_alpha {
            let mut next = prefix.to_vec();
            next.resize(pos, 0);
            next.push(alt);
            children.push(next);
        }
    }
    children
}

/// All scenarios are explored from one shared work queue by 16 plain OS threads (not rayon tasks: the planner's
/// collision checks use rayon, and a pool thread waiting there could start another exploration task on the same
/// thread, which would clobber the thread-local RNG script).
fn explore_all(scs: &[(Scenario, usize, bool)]) -> Vec<Explored> {
    use std::sync::Mutex;
    let prepared: Vec<(rs_opw_kinematics::kinematics_with_shape::KinematicsWithShape, Limits)> = scs
        .iter()
        .map(|(s, _, _)| {
            let cell = scenario_cell(s);
            // the construction history of the limits rotates over the scenarios (a function of the scenario, so replays agree)
            (crate::common::stack::with_forced_history(s.limits_history(), || cell.robot()), cell.limits)
        })
        .collect();
    let queue: Mutex<Vec<(usize, Vec<usize>)>> = Mutex::new((0..scs.len()).rev().map(|i| (i, vec![])).collect());
    let in_flight = AtomicUsize::new(0);
    let results: Vec<Mutex<Explored>> = scs.iter().map(|_| Mutex::new(Explored { executions: 0, fails: vec![], sigs: vec![], transitions: 0 })).collect();
    std::thread::scope(|sc| {
        for _ in 0..16 {
            sc.spawn(|| loop {
                let task = {
                    let mut q = queue.lock().unwrap();
                    let t = q.pop();
                    if t.is_some() {
                        in_flight.fetch_add(1, Ordering::SeqCst);
                    }
                    t
                };
                match task {
                    Some((i, prefix)) => {
                        let (s, k, c) = &scs[i];
                        let mut local = Explored { executions: 0, fails: vec![], sigs: vec![], transitions: 0 };
                        let children = explore_node(s, &prepared[i].0, &prepared[i].1, *k, *c, &prefix, &mut local);
                        {
                            let mut r = results[i].lock().unwrap();
                            r.executions += local.executions;
                            r.transitions += local.transitions;
                            r.sigs.extend(local.sigs);
                            r.fails.extend(local.fails);
                        }
                        {
                            let mut q = queue.lock().unwrap();
                            for ch in children {
                                q.push((i, ch));
                            }
                        }
                        in_flight.fetch_sub(1, Ordering::SeqCst);
                    }
                    None => {
                        if in_flight.load(Ordering::SeqCst) == 0 && queue.lock().unwrap().is_empty() {
                            break;
                        }
                        std::thread::sleep(std::time::Duration::from_micros(200));
                    }
                }
            });
        }
    });
    results
        .into_iter()
        .map(|m| {
            let mut e = m.into_inner().unwrap();
            // deterministic report order whatever the thread interleaving was
            e.fails.sort_by(|a, b| (a.0.as_str(), a.2.to_string()).cmp(&(b.0.as_str(), b.2.to_string())));
            e.sigs.sort();
            e.sigs.dedup();
            e
        })
        .collect()
}

pub fn scenarios(thorough: bool) -> Vec<(Scenario, usize, bool)> {
    // (scenario, alphabet size, with cancellation enumeration)
    let mut v = Vec::new();
    let depth = if thorough { 6 } else { 5 };
    let k = if thorough { 9 } else { 6 };
    for layout in 0..3 {
        for limits in 0..4 {
            for step in [0.05, 0.3, 2.5] {
                for max_try in 0..=depth {
                    // the deepest budgets only with the coarse steps (cost)
                    if step == 0.05 && max_try > depth - 2 {
                        continue;
                    }
                    // the deepest budget of the thorough tier not with the finest step
                    if thorough && max_try == depth && step == 0.05 {
                        continue;
                    }
                    v.push((Scenario { layout, limits, step, max_try, pair: 0 }, k, max_try <= 3));
                    if limits == 3 && layout == 0 && max_try <= 3 {
                        v.push((Scenario { layout, limits, step, max_try, pair: 1 }, k, false));
                    }
                    if limits == 0 && layout <= 1 && max_try <= 4 && step > 0.1 {
                        v.push((Scenario { layout, limits, step, max_try, pair: 2 }, k, false));
                    }
                }
            }
        }
    }
    // collision checking switched off: the planner's contract (spacing, end points, budget, cancellation) is the same
    for step in [0.05, 0.3] {
        for max_try in 0..=3 {
            v.push((Scenario { layout: 3, limits: 0, step, max_try, pair: 0 }, k, max_try <= 2));
            v.push((Scenario { layout: 3, limits: 1, step, max_try, pair: 0 }, k, false));
        }
    }
    // goal = start up to rounding residue, and goal == start
    for pair in [4usize, 5] {
        for step in [0.05, 0.3] {
            for max_try in 0..=2 {
                v.push((Scenario { layout: 0, limits: 0, step, max_try, pair }, 3, max_try <= 1));
            }
        }
    }
    // sub-milliradian steps on a pair 0.03 rad apart (samples: goal / start only, so every extension stays short)
    for limits in [0usize, 3] {
        for step in [2.5e-4, 8e-4] {
            for max_try in 0..=2 {
                v.push((Scenario { layout: 0, limits, step, max_try, pair: 3 }, 2, max_try <= 1));
            }
        }
    }
    v
}

pub fn run(ctx: &Ctx) -> Report {
    let scs = scenarios(!ctx.quick());
    let results: Vec<Explored> = explore_all(&scs);
    let mut rep = Report::new();
    for (i, e) in results.into_iter().enumerate() {
        rep.states += e.executions;
        rep.transitions += e.transitions.max(1);
        for s in e.sigs {
            rep.sig(s);
        }
        for (k, d, case) in e.fails {
            rep.fail(k, i as u64, case, d);
        }
    }
    let both_trees = rep.signatures.iter().filter(|s| s.starts_with("ok:")).count() >= 2;
    if !both_trees && rep.fails.is_empty() {
        rep.machinery_errors.push("fewer than two distinct successful outcomes".into());
    }
    rep.traces_validated = rep.states;
    rep.sample(|| json!({"scenario": {"layout": 1, "limits": 0, "step": 0.3, "max_try": 3}, "samples": [3, 0, 2], "alphabet": (0..5).map(|k| nums(&alphabet(&scs[0].0, k))).collect::<Vec<_>>()}));
    rep.rule = "layouts {free, pillar between start and goal, plates around the tool at the start, free with collision checking switched off} x limits {wide, window, wrapping on J4/J6, non-wrapping beyond +-pi} x step {0.05, 0.3, 2.5; 2.5e-4 and 8e-4 on a pair 0.03 rad apart; goal equal to the start exactly / up to 1e-17 residues} x \
                max_try 0..D; for each, the tree of sample sequences over the alphabet {goal, start, into the obstacle, around it, far corner, ...} is explored \
                exhaustively: every execution's consumed positions beyond its prefix branch into every other alphabet member (defaults first); the real \
                sampler consumes scripted raw draws; oracle on Ok: start/goal bit-equal, every node !collides, consecutive nodes <= 3 steps, nodes within \
                non-wrapping limits; cancellation before the call and inside every consumed sample; signature = (outcome, path length, samples consumed)".into();
    rep.set("axes", json!({"scenarios": scs.len(), "alphabet": scs[0].1, "max_depth": scs.iter().map(|s| s.0.max_try).max()}));
    rep.assumptions.push("a path completed in the iteration during which the flag goes up is legitimate (the flag is polled once per iteration)".into());
    rep
}

pub fn replay(case: &Value) -> Vec<String> {
    let sc = &case["scenario"];
    let s = Scenario {
        layout: sc["layout"].as_u64().unwrap() as usize,
        limits: sc["limits"].as_u64().unwrap() as usize,
        step: as_num(&sc["step"]),
        max_try: sc["max_try"].as_u64().unwrap() as usize,
        pair: sc["pair"].as_u64().unwrap_or(0) as usize,
    };
    let seq: Vec<usize> = case["samples"].as_array().unwrap().iter().map(|x| x.as_u64().unwrap() as usize).collect();
    let cancel = match case["cancel_at"].as_i64() {
        None => None,
        Some(-1) => Some(usize::MAX),
        Some(k) => Some(k as usize),
    };
    let cell = scenario_cell(&s);
    let robot = crate::common::stack::with_forced_history(s.limits_history(), || cell.robot());
    let run = execute(&s, &robot, &cell.limits, &seq, cancel);
    judge(&s, &robot, &cell.limits, &run, cancel).into_iter().map(|(k, d)| format!("{k}: {d}")).collect()
}
