//! C19 — parameter YAML round-trips, every documented syntax variant parses, malformed files never panic.

use crate::common::ev::*;
use crate::common::par;
use crate::common::robots::*;
use crate::common::stack::panic_message;
use rs_opw_kinematics::parameters::opw_kinematics::Parameters;
use serde_json::{json, Value};
use std::f64::consts::PI;
use std::panic::{catch_unwind, AssertUnwindSafe};

fn scratch_dir() -> String {
    let base = if std::path::Path::new("/dev/shm").is_dir() { "/dev/shm".to_string() } else { std::env::temp_dir().to_string_lossy().to_string() };
    let d = format!("{base}/opwmc-c19-{}", std::process::id());
    let _ = std::fs::create_dir_all(&d);
    d
}

#[derive(Debug)]
enum Parsed {
    Ok(Parameters),
    Err(String),
    Panic(String),
}

fn parse_bytes(bytes: &[u8], slot: u64) -> Parsed {
    let path = format!("{}/f{}.yaml", scratch_dir(), slot);
    std::fs::write(&path, bytes).expect("write scratch yaml");
    let r = catch_unwind(AssertUnwindSafe(|| Parameters::from_yaml_file(&path)));
    let _ = std::fs::remove_file(&path);
    match r {
        Err(p) => Parsed::Panic(panic_message(&p)),
        Ok(Ok(p)) => Parsed::Ok(p),
        Ok(Err(e)) => Parsed::Err(format!("{e}")),
    }
}

// ------------------------------------------------------------------ round trip

fn record(ix: &[usize]) -> Parameters {
    let lens = [0.0, 1.0, 0.15, -0.1, 1e-7, 12345.678, -2.0, 0.525];
    // includes offsets near the printed precision (1e-4 degree = 1.7e-6 rad) and calibration-residue sized ones
    let offs = [0.0, PI / 2.0, -PI / 2.0, PI, 0.1234567, -3.0, 5e-5, -3e-6, 2.5e-4];
    let signs: [[i8; 6]; 4] = [[1; 6], [-1, 1, -1, 1, -1, 1], [1, 1, -1, -1, -1, -1], [1, 1, 1, 1, 1, 0]];
    // the zero J6 sign occurs with dof 6 as well as with dof 5
    let dof = if ix[5] == 1 { 5 } else { 6 };
    let mut s = signs[ix[4]];
    if dof == 5 {
        s[5] = 0;
    }
    Parameters {
        a1: lens[ix[0]],
        a2: lens[(ix[0] + 3) % 8],
        b: lens[ix[1]],
        c1: lens[(ix[1] + ix[0] + 1) % 8],
        c2: lens[ix[2]],
        c3: lens[(ix[2] + 5) % 8],
        c4: lens[(ix[2] + ix[1]) % 8],
        offsets: std::array::from_fn(|i| offs[(ix[3] + i * (1 + ix[3])) % 9]),
        sign_corrections: s,
        dof,
    }
}

fn same_params(a: &Parameters, b: &Parameters, offset_tol: f64) -> Option<String> {
    let g = |x: &Parameters| [x.a1, x.a2, x.b, x.c1, x.c2, x.c3, x.c4];
    for (i, (x, y)) in g(a).iter().zip(g(b).iter()).enumerate() {
        if x.to_bits() != y.to_bits() && !(*x == 0.0 && *y == 0.0) {
            return Some(format!("geometry field {} is {} instead of {}", ["a1", "a2", "b", "c1", "c2", "c3", "c4"][i], y, x));
        }
    }
    // the loader documents that it blocks J6 (sign 0) for a 5-DOF robot: J6's sign is not compared there
    let upto = if a.dof == 5 { 5 } else { 6 };
    if a.sign_corrections[..upto] != b.sign_corrections[..upto] {
        return Some(format!("sign corrections {:?} instead of {:?}", b.sign_corrections, a.sign_corrections));
    }
    if a.dof != b.dof {
        return Some(format!("dof {} instead of {}", b.dof, a.dof));
    }
    for i in 0..6 {
        if !((a.offsets[i] - b.offsets[i]).abs() <= offset_tol) {
            return Some(format!("offset {} is {} instead of {}", i + 1, b.offsets[i], a.offsets[i]));
        }
    }
    None
}

pub fn eval_round_trip(p: &Parameters, slot: u64) -> Option<(String, String)> {
    let text = p.to_yaml();
    let has_int_len = [p.a1, p.a2, p.b, p.c1, p.c2, p.c3, p.c4].iter().any(|x| x.fract() == 0.0);
    let cls = format!("dof{}{}", p.dof, if has_int_len { "/integral-length" } else { "" });
    match parse_bytes(text.as_bytes(), slot) {
        Parsed::Panic(m) => Some((format!("C19/round-trip/panic/{cls}"), m)),
        Parsed::Err(e) => Some((format!("C19/round-trip/does-not-parse/{cls}"), format!("to_yaml output is rejected: {e}\n{text}"))),
        Parsed::Ok(back) => same_params(p, &back, 0.5e-4f64.to_radians() * 1.0001)
            .map(|d| (format!("C19/round-trip/differs/{cls}"), format!("{d}\n{text}"))),
    }
}

// ------------------------------------------------------------------ documented syntax variants

#[derive(Clone, Copy, Debug)]
pub struct Variant {
    num_style: usize,    // 0 "0.15", 1 integers where integral, 2 "-0.10"-style padded, 3 exponent
    offset_style: usize, // 0 radians, 1 deg(x), 2 deg( x ), 3 integer radians / integer degrees
    arr_len: usize,      // 6 or 5
    dof_place: usize,    // 0 absent, 1 top level (documented), 2 nested (as in the bundled 5-DOF file)
    dof: i8,
    with_arrays: bool,
    decoration: usize, // 0 plain, 1 comments, 2 CRLF, 3 trailing spaces
}

fn fmt_num(x: f64, style: usize) -> String {
    match style {
        0 => {
            if x.fract() == 0.0 {
                format!("{x:.1}")
            } else {
                format!("{x}")
            }
        }
        1 => {
            if x.fract() == 0.0 {
                format!("{}", x as i64)
            } else {
                format!("{x}")
            }
        }
        2 => format!("{x:.5}"),
        _ => format!("{x:e}").replace('e', "e+").replace("e+-", "e-"),
    }
}

fn document(v: &Variant) -> (String, Parameters) {
    let lens: [f64; 7] = [0.15, -0.10, 0.0, 0.525, 0.77, 0.74, 1.0];
    let offs_deg: [f64; 6] = [0.0, 0.0, -90.0, 0.0, 0.0, 180.0];
    let offs_rad_int: [f64; 6] = [0.0, 1.0, -2.0, 0.0, 3.0, 0.0];
    let signs: [i8; 6] = [1, 1, -1, -1, -1, -1];
    let nl = if v.decoration == 2 { "\r\n" } else { "\n" };
    let trail = if v.decoration == 3 { "   " } else { "" };
    let mut s = String::new();
    if v.decoration == 1 {
        s.push_str("# FANUC m16ib20");
        s.push_str(nl);
    }
    s.push_str(&format!("opw_kinematics_geometric_parameters:{trail}{nl}"));
    for (k, x) in ["a1", "a2", "b", "c1", "c2", "c3", "c4"].iter().zip(lens.iter()) {
        s.push_str(&format!("  {k}: {}{trail}{}{nl}", fmt_num(*x, v.num_style), if v.decoration == 1 && *k == "b" { " # lateral offset" } else { "" }));
    }
    if v.dof_place == 2 {
        s.push_str(&format!("  dof: {}{trail}{nl}", v.dof));
    }
    let mut expect_offsets = [0.0; 6];
    if v.with_arrays {
        let items: Vec<String> = (0..v.arr_len)
            .map(|i| match v.offset_style {
                0 => {
                    expect_offsets[i] = offs_deg[i].to_radians();
                    format!("{}", offs_deg[i].to_radians())
                }
                1 => {
                    expect_offsets[i] = offs_deg[i].to_radians();
                    if offs_deg[i] == 0.0 { "0.0".to_string() } else { format!("deg({:.1})", offs_deg[i]) }
                }
                2 => {
                    expect_offsets[i] = offs_deg[i].to_radians();
                    format!("deg( {} )", offs_deg[i] as i64)
                }
                _ => {
                    expect_offsets[i] = offs_rad_int[i];
                    format!("{}", offs_rad_int[i] as i64)
                }
            })
            .collect();
        s.push_str(&format!("opw_kinematics_joint_offsets: [{}]{trail}{nl}", items.join(", ")));
        let sg: Vec<String> = (0..v.arr_len).map(|i| signs[i].to_string()).collect();
        s.push_str(&format!("opw_kinematics_joint_sign_corrections: [{}]{trail}{nl}", sg.join(", ")));
    }
    if v.dof_place == 1 {
        s.push_str(&format!("dof: {}{trail}{nl}", v.dof));
    }
    let dof = if v.dof_place == 0 { 6 } else { v.dof };
    let mut es: [i8; 6] = if v.with_arrays { signs } else { [1; 6] };
    if v.with_arrays && v.arr_len == 5 {
        es[5] = 0;
    }
    if dof == 5 {
        es[5] = 0;
    }
    let expect = Parameters {
        a1: lens[0],
        a2: lens[1],
        b: lens[2],
        c1: lens[3],
        c2: lens[4],
        c3: lens[5],
        c4: lens[6],
        offsets: expect_offsets,
        sign_corrections: es,
        dof,
    };
    (s, expect)
}

pub fn eval_variant(v: &Variant, slot: u64) -> Option<(String, String)> {
    let (text, expect) = document(v);
    let cls = format!(
        "numbers-{}/offsets-{}/len{}/dof-{}{}",
        ["real", "integer", "padded", "exponent"][v.num_style],
        ["radians", "deg", "deg-spaced", "integer"][v.offset_style],
        if v.with_arrays { v.arr_len } else { 0 },
        ["absent", "top-level", "nested"][v.dof_place],
        if v.dof_place != 0 { format!("{}", v.dof) } else { String::new() },
    );
    match parse_bytes(text.as_bytes(), slot) {
        Parsed::Panic(m) => Some((format!("C19/variant/panic/{cls}"), m)),
        Parsed::Err(e) => Some((format!("C19/variant/rejected/{cls}"), format!("documented-format file rejected: {e}\n{text}"))),
        Parsed::Ok(got) => same_params(&expect, &got, 1e-12).map(|d| (format!("C19/variant/misread/{cls}"), format!("{d}\n{text}"))),
    }
}

fn variants() -> Vec<Variant> {
    let mut v = Vec::new();
    for num_style in 0..4 {
        for offset_style in 0..4 {
            for arr_len in [6usize, 5] {
                for (dof_place, dof) in [(0usize, 6i8), (1, 6), (1, 5), (2, 6), (2, 5)] {
                    for with_arrays in [true, false] {
                        for decoration in 0..4 {
                            if !with_arrays && (offset_style > 0 || arr_len == 5) {
                                continue;
                            }
                            v.push(Variant { num_style, offset_style, arr_len, dof_place, dof, with_arrays, decoration });
                        }
                    }
                }
            }
        }
    }
    v
}

// ------------------------------------------------------------------ no panic

const JUNK: [&str; 12] = ["", "~", "[]", "{}", "[1, [2]]", "abc", "deg(", "deg(x)", "- 1", "1e999", "\"", ": :"];

fn base_lines() -> Vec<String> {
    let (text, _) = document(&Variant { num_style: 0, offset_style: 1, arr_len: 6, dof_place: 1, dof: 6, with_arrays: true, decoration: 0 });
    text.lines().map(|l| l.to_string()).collect()
}

/// op index -> edited copy of the document lines
fn apply_edit(lines: &[String], op: usize) -> Vec<String> {
    let per = 2 + JUNK.len();
    let li = op / per;
    let k = op % per;
    let mut out = lines.to_vec();
    match k {
        0 => {
            out.remove(li);
        }
        1 => {
            let l = out[li].clone();
            out.insert(li, l);
        }
        j => {
            let junk = JUNK[j - 2];
            let l = &out[li];
            out[li] = match l.find(':') {
                Some(c) => format!("{} {}", &l[..=c], junk),
                None => junk.to_string(),
            };
        }
    }
    out
}

const TOKENS: [&str; 22] = [
    "opw_kinematics_geometric_parameters:", "a1:", "opw_kinematics_joint_offsets:", "opw_kinematics_joint_sign_corrections:", "dof:",
    "\n", "  ", " ", "[", "]", ",", "1", "0.5", "deg(", ")", "90", "-", "{", "}", "\"", "---", "#",
];

/// Entries that are not a number and not a well-formed deg(<number>): the file must be rejected, not misread.
const BAD_OFFSET_ENTRIES: [&str; 10] = ["deg(", "deg(90", "deg 90)", "deg(9 0)", "deg()", "deg(x)", "deg(90))", "(90)", "deg(90\u{b0}", "ninety"];

fn offsets_document(entry_index: usize, entry: &str, block_style: bool) -> String {
    let mut items: Vec<String> = vec!["0".into(), "0".into(), "deg(-90)".into(), "0".into(), "0".into(), "deg(180)".into()];
    items[entry_index] = entry.to_string();
    let head = "opw_kinematics_geometric_parameters:\n  a1: 0.15\n  a2: -0.10\n  b: 0.0\n  c1: 0.525\n  c2: 0.77\n  c3: 0.74\n  c4: 0.10\n";
    if block_style {
        format!("{head}opw_kinematics_joint_offsets:\n{}\n", items.iter().map(|i| format!("  - {i}")).collect::<Vec<_>>().join("\n"))
    } else {
        format!("{head}opw_kinematics_joint_offsets: [{}]\n", items.join(", "))
    }
}

pub fn run(ctx: &Ctx) -> Report {
    let thorough = !ctx.quick();
    let _ = std::fs::remove_dir_all(scratch_dir());
    // round trip
    let rsizes = [8usize, 8, 8, 9, 4, 2];
    let rn = par::product(&rsizes);
    let mut rep = par::run(rn, |idx, r| {
        let mut ix = [0usize; 6];
        par::decode(idx, &rsizes, &mut ix);
        let p = record(&ix);
        r.states += 1;
        r.transitions += 2;
        match eval_round_trip(&p, idx) {
            None => r.sig(format!("round-trip-ok:dof{}", p.dof)),
            Some((k, d)) => r.fail(k, idx, json!({"kind":"round-trip","ix": ix.to_vec()}), d),
        }
        if idx % 3001 == 0 {
            r.sample(|| json!({"kind":"round-trip","yaml": p.to_yaml()}));
        }
    });
    // the robots axis as records too
    for (i, p) in robot_axis(0, &[6, 5]).iter().enumerate() {
        rep.states += 1;
        rep.transitions += 2;
        if let Some((k, d)) = eval_round_trip(p, 1_000_000 + i as u64) {
            rep.fail(k, rn + i as u64, json!({"kind":"round-trip-params","params": params_json(p)}), d);
        }
    }
    // documented variants
    let vs = variants();
    let vrep = par::run(vs.len() as u64, |idx, r| {
        let v = &vs[idx as usize];
        r.states += 1;
        r.transitions += 1;
        match eval_variant(v, 2_000_000 + idx) {
            None => r.sig(format!("variant-ok:{}:{}", v.num_style, v.dof_place)),
            Some((k, d)) => r.fail(k, rn + 1000 + idx, json!({"kind":"variant","index": idx}), d),
        }
        if idx % 301 == 0 {
            r.sample(|| json!({"kind":"variant","yaml": document(v).0}));
        }
    });
    rep.merge(vrep);
    // no panic: 1- and 2-edit deviations
    let lines = base_lines();
    let per = 2 + JUNK.len();
    let n1 = lines.len() * per;
    let erep = par::run((n1 * (n1 + 1)) as u64, |idx, r| {
        let a = (idx as usize) / (n1 + 1);
        let b = (idx as usize) % (n1 + 1);
        let mut doc = apply_edit(&lines, a);
        if b < n1 {
            let lb = b / per;
            if lb >= doc.len() {
                return;
            }
            doc = apply_edit(&doc, b);
        }
        let text = doc.join("\n") + "\n";
        r.states += 1;
        r.transitions += 1;
        match parse_bytes(text.as_bytes(), 3_000_000 + idx) {
            Parsed::Panic(m) => r.fail("C19/no-panic/edited-document", rn + 5000 + idx, json!({"kind":"bytes","text": text}), format!("panicked: {m}")),
            Parsed::Ok(_) => r.sig("edited:ok"),
            Parsed::Err(_) => r.sig("edited:err"),
        }
    });
    rep.merge(erep);
    // no panic: token strings
    let (ntok, maxlen) = if thorough { (22u64, 5u32) } else { (22u64, 4u32) };
    for len in 0..=maxlen {
        let count = ntok.pow(len);
        let trep = par::run(count, |idx, r| {
            let mut s = String::new();
            let mut k = idx;
            for _ in 0..len {
                s.push_str(TOKENS[(k % ntok) as usize]);
                k /= ntok;
            }
            r.states += 1;
            r.transitions += 1;
            match parse_bytes(s.as_bytes(), 4_000_000 + idx + (len as u64) * 10_000_000) {
                Parsed::Panic(m) => r.fail(
                    if s.trim().is_empty() || s.trim_start().starts_with('#') { "C19/no-panic/empty-document" } else { "C19/no-panic/token-string" },
                    rn + 1_000_000 + idx,
                    json!({"kind":"bytes","text": s}),
                    format!("panicked: {m}"),
                ),
                Parsed::Ok(_) => r.sig("tokens:ok"),
                Parsed::Err(_) => r.sig("tokens:err"),
            }
        });
        rep.merge(trep);
    }
    // array lengths x declared dof: sign and offset arrays of 0..8 entries (flow style) under dof {absent, 5, 6, nested 5}.
    // Never a panic; anything but 5 or 6 entries is malformed and must be refused
    {
        let dofs: [(&str, &str); 4] = [("", ""), ("dof: 5\n", ""), ("dof: 6\n", ""), ("", "  dof: 5\n")];
        let asizes = [dofs.len(), 9, 9];
        let an = par::product(&asizes);
        let arep = par::run(an, |idx, r| {
            let mut ix = [0usize; 3];
            par::decode(idx, &asizes, &mut ix);
            let (top, nested) = dofs[ix[0]];
            let signs: Vec<&str> = ["1", "-1", "1", "-1", "1", "1", "-1", "1"].iter().take(ix[1]).cloned().collect();
            let offs: Vec<&str> = ["0.0", "0.1", "deg(-90.0)", "0", "deg(180)", "-0.3", "0.2", "0"].iter().take(ix[2]).cloned().collect();
            let text = format!(
                "opw_kinematics_geometric_parameters:\n  a1: 0.1\n  a2: -0.135\n  b: 0.0\n  c1: 0.615\n  c2: 0.705\n  c3: 0.755\n  c4: 0.085\n{nested}opw_kinematics_joint_offsets: [{}]\nopw_kinematics_joint_sign_corrections: [{}]\n{top}",
                offs.join(", "),
                signs.join(", ")
            );
            r.states += 1;
            r.transitions += 1;
            let wrong_len = !(ix[1] == 5 || ix[1] == 6) || !(ix[2] == 5 || ix[2] == 6);
            match parse_bytes(text.as_bytes(), 6_000_000 + idx) {
                Parsed::Panic(m) => r.fail("C19/no-panic/array-length", rn + 3_000_000 + idx, json!({"kind":"bytes","text": text}), format!("panicked: {m}")),
                Parsed::Ok(p) if wrong_len => r.fail("C19/wrong-array-length-accepted", rn + 3_000_000 + idx, json!({"kind":"array-length","text": text}), format!("{} sign entries and {} offset entries were accepted: {:?} / {:?}", ix[1], ix[2], p.sign_corrections, p.offsets)),
                Parsed::Ok(_) => r.sig("array-length:ok"),
                Parsed::Err(_) => r.sig("array-length:err"),
            }
        });
        rep.merge(arep);
    }
    // array-element level: every offsets entry replaced by every malformed entry (flow and block style) and by the junk tokens
    for (ei, entry) in BAD_OFFSET_ENTRIES.iter().chain(JUNK.iter()).enumerate() {
        for idx in 0..6 {
            for block in [false, true] {
                let text = offsets_document(idx, entry, block);
                rep.states += 1;
                rep.transitions += 1;
                let must_err = ei < BAD_OFFSET_ENTRIES.len();
                match parse_bytes(text.as_bytes(), 7_000_000 + (ei * 12 + idx * 2 + block as usize) as u64) {
                    Parsed::Panic(m) => rep.fail("C19/no-panic/offsets-entry", rn + 7_000_000 + ei as u64, json!({"kind":"bytes","text": text}), format!("panicked: {m}")),
                    Parsed::Ok(p) if must_err => rep.fail(
                        "C19/malformed-offset-entry-accepted",
                        rn + 7_100_000 + ei as u64,
                        json!({"kind":"malformed-offset","text": text}),
                        format!("offsets entry `{entry}` is neither a number nor deg(<number>) but the file parsed, offsets = {:?}", p.offsets),
                    ),
                    Parsed::Ok(_) => rep.sig("offsets-entry:ok"),
                    Parsed::Err(_) => rep.sig("offsets-entry:err"),
                }
            }
        }
    }
    // every byte string of length 0, 1 and 2
    let brep = par::run(1 + 256 + 65536, |idx, r| {
        let bytes: Vec<u8> = if idx == 0 { vec![] } else if idx <= 256 { vec![(idx - 1) as u8] } else { vec![((idx - 257) / 256) as u8, ((idx - 257) % 256) as u8] };
        r.states += 1;
        r.transitions += 1;
        match parse_bytes(&bytes, 8_000_000 + idx) {
            Parsed::Panic(m) => r.fail(
                "C19/no-panic/short-byte-string",
                rn + 8_000_000 + idx,
                json!({"kind":"bytes-hex","hex": bytes.iter().map(|b| format!("{b:02x}")).collect::<String>()}),
                format!("panicked: {m}"),
            ),
            Parsed::Ok(_) => r.sig("bytes:ok"),
            Parsed::Err(_) => r.sig("bytes:err"),
        }
    });
    rep.merge(brep);
    // special byte strings
    let specials: Vec<(&str, Vec<u8>)> = vec![
        ("empty", vec![]),
        ("only-comment", b"# nothing here\n".to_vec()),
        ("only-newlines", b"\n\n\n".to_vec()),
        ("non-utf8", vec![0xff, 0xfe, 0x00, 0x41, 0x3a, 0x20, 0x80]),
        ("two-documents", b"---\na: 1\n---\nopw_kinematics_geometric_parameters:\n  a1: 0.1\n".to_vec()),
        ("document-end-only", b"...\n".to_vec()),
        ("scalar-document", b"42\n".to_vec()),
        ("list-document", b"- 1\n- 2\n".to_vec()),
        ("tab-indent", b"opw_kinematics_geometric_parameters:\n\ta1: 1\n".to_vec()),
        ("nul-bytes", b"a1: \0\0\n".to_vec()),
    ];
    for (i, (name, bytes)) in specials.iter().enumerate() {
        rep.states += 1;
        rep.transitions += 1;
        if let Parsed::Panic(m) = parse_bytes(bytes, 9_000_000 + i as u64) {
            rep.fail(
                if matches!(*name, "empty" | "only-comment" | "only-newlines") { "C19/no-panic/empty-document".to_string() } else { format!("C19/no-panic/{name}") },
                rn + 9_000_000 + i as u64,
                json!({"kind":"bytes-hex","hex": bytes.iter().map(|b| format!("{b:02x}")).collect::<String>()}),
                format!("panicked: {m}"),
            );
        }
    }
    let _ = std::fs::remove_dir_all(scratch_dir());
    rep.traces_validated = rep.transitions;
    rep.rule = format!(
        "round trip: 8x8x8 length choices (incl. 0, 1, negatives, 1e-7, 12345.678) x 9 offset patterns (incl. offsets of 3e-6, 5e-5, 2.5e-4 rad) x 4 sign patterns x dof -> to_yaml -> file -> \
         from_yaml_file; documented variants: number style x offset style x array length 6/5 x dof {{absent, top level, nested}} x arrays present/absent x \
         {{plain, comments, CRLF, trailing spaces}} against the harness's own expectation; no panic: all 1- and 2-edit deviations of the documented file \
         ({} single edits), all token strings up to length {maxlen} over a 22-token alphabet (incl. a bare `deg(` and `)`), every offsets entry replaced by malformed deg() forms (must be an error, not a misreading), every byte string of length <= 2, 10 special byte strings, sign / offset arrays of 0..8 entries under dof {{absent, 5, 6, nested 5}} (no panic; refused unless 5 or 6 entries); signature = outcome class",
        n1
    );
    rep.set("axes", json!({"round_trip_records": rn, "variants": vs.len(), "single_edits": n1, "token_alphabet": 20, "token_max_len": maxlen}));
    rep
}

pub fn replay(case: &Value) -> Vec<String> {
    let out = match case["kind"].as_str().unwrap() {
        "round-trip" => {
            let ix: Vec<usize> = case["ix"].as_array().unwrap().iter().map(|x| x.as_u64().unwrap() as usize).collect();
            eval_round_trip(&record(&ix), 1)
        }
        "round-trip-params" => eval_round_trip(&params_from_json(&case["params"]), 1),
        "variant" => eval_variant(&variants()[case["index"].as_u64().unwrap() as usize], 1),
        "array-length" => match parse_bytes(case["text"].as_str().unwrap().as_bytes(), 2) {
            Parsed::Panic(m) => Some(("C19/no-panic/array-length".to_string(), format!("panicked: {m}"))),
            Parsed::Ok(p) => Some(("C19/wrong-array-length-accepted".to_string(), format!("accepted with signs {:?}", p.sign_corrections))),
            Parsed::Err(_) => None,
        },
        "malformed-offset" => match parse_bytes(case["text"].as_str().unwrap().as_bytes(), 1) {
            Parsed::Panic(m) => Some(("C19/no-panic".to_string(), format!("panicked: {m}"))),
            Parsed::Ok(p) => Some(("C19/malformed-offset-entry-accepted".to_string(), format!("parsed with offsets {:?}", p.offsets))),
            _ => None,
        },
        "bytes" => match parse_bytes(case["text"].as_str().unwrap().as_bytes(), 1) {
            Parsed::Panic(m) => Some(("C19/no-panic".to_string(), format!("panicked: {m}"))),
            _ => None,
        },
        "bytes-hex" => {
            let h = case["hex"].as_str().unwrap();
            let bytes: Vec<u8> = (0..h.len() / 2).map(|i| u8::from_str_radix(&h[2 * i..2 * i + 2], 16).unwrap()).collect();
            match parse_bytes(&bytes, 1) {
                Parsed::Panic(m) => Some(("C19/no-panic".to_string(), format!("panicked: {m}"))),
                _ => None,
            }
        }
        _ => None,
    };
    out.into_iter().map(|(k, d)| format!("{k}: {d}")).collect()
}
