#!/usr/bin/env python3
"""Generates MANIFEST.json from the table below (kept in one place so it stays valid)."""
import json, subprocess

CHECKS = {
 "C01": dict(engine="E1-lattice", ref="5/C01",
   technique="bounded-exhaustive lattice enumeration of (robot, pose class, entry point, previous) on the real IK, each answer pushed through an independent FK model",
   text="Every point of robots R (geometry incl. negative lengths x signs x offsets incl. beyond half a turn x dof 5/6) x poses (FK_ref of a joint lattice incl. J5 in {0, pi, +-1e-9, +-thr/2} and stretched elbow, scaled-out unreachable poses, wrist centre on the J1 axis, NaN/inf/1e308/denormal in every pose component, un-normalised quaternions) x 11 entry-point/previous variants is executed; every returned vector must be finite, map through FK_ref onto the request within 1e-6 m / 1e-6 rad (point+axis for 5-DOF), be normalised for plain inverse, and be absent for unreachable poses; panics are caught and judged. Threshold sweep (J5 -> k*pi on 5 robots and one length parameter -> 0): the axis that approaches a special value is enumerated along a magnitude ladder (13 per decade, 1e-12..1e-2, both sides, plus neighbours/squares/roots of the float literals of the source file under test). Discontinuity sweep: along 90 joint lines the jumps of the number of answers of inverse(FK(q)) (singularities, reach boundary) are located by bisection and all entry points are run 1e-12..1e-4 on either side of each.",
   note="Trusted: FK_ref, the arm-reach oracle used to label poses unreachable, nalgebra conversions. Lattice-relative."),
 "C02": dict(engine="E1-lattice", ref="5/C02",
   technique="bounded-exhaustive lattice enumeration with an oracle-computed branch count (independent arm IK) and closure re-solves",
   text="For every lattice configuration outside oracle-computed singularity/reach margins: q is among inverse(FK_ref(q)), the number of answers equals 2 x the number of arm branches an independent positional arm IK finds, wrist-flipped twins are present, no duplicates, and every answer's pose yields a set of the same size. Both 4- and 8-answer poses must occur or the run is void. Threshold sweep (one length parameter (a1, a2, b, c4) -> 0): the axis that approaches a special value is enumerated along a magnitude ladder (13 per decade, 1e-12..1e-2, both sides, plus neighbours/squares/roots of the float literals of the source file under test). Every pose is also solved with its quaternion negated (q and -q are one rotation): same answer set.",
   note="Trusted: FK_ref and the closed-form arm oracle in the harness; margins 1e-3 (sin), 1e-6 (reach cosine), 1 mm (shoulder)."),
 "C03": dict(engine="E1-lattice", ref="5/C03",
   technique="bounded-exhaustive lattice enumeration of (robot, joint vector) on the real FK code against an independent link-chain model",
   text="Every point of a finite product lattice (geometries incl. b!=0/a2!=0, zero and negative link lengths x all 64 sign patterns x offsets x joint values incl. |q|>>2pi) is executed on forward and forward_with_joint_poses and compared with FK_ref (elementary-transform chain, cross-validated in the same run on 2048 recorded cases of an independent C++ implementation); prefix dependence is checked bit-exactly, link separations to 1e-12. Threshold sweep (one length parameter -> 0; dof-5 parameter sets): the axis that approaches a special value is enumerated along a magnitude ladder (13 per decade, 1e-12..1e-2, both sides, plus neighbours/squares/roots of the float literals of the source file under test). On an eighth of the points an unrelated robot on the same thread is asked the same question first and the robot under test twice: forward kinematics must be a function of (parameters, joints) alone.",
   note="Trusted: FK_ref (hand-written f64 matrices), nalgebra quaternion<->matrix conversion, the lattice as printed in evidence."),
 "C04": dict(engine="E1-lattice + E2-graph", ref="5/C04",
   technique="lattice enumeration of continuation calls plus explicit-state search (stateright BFS, run twice) over joint-space trajectories whose transitions call the real solver",
   text="E1: robots x poses x a previous-lattice in [-2pi,2pi]^6 (incl. CONSTRAINT_CENTERED) x limit sets (incl. a wrapping range in the [0,360) convention whose centre lies beyond one turn) x weights x both continuation entry points: nearest 2pi representative, documented cost non-decreasing, every plain-inverse answer present, previous first when it realises the pose. E2: all reachable nodes of a 6-D joint lattice (J4/J6 across +-2pi, ~40k states, ~350k transitions) under 12 single-joint moves; each transition calls inverse_continuing(FK_ref(next), previously returned vector); invariant: first answer is the trajectory point; differential: same node via two paths gives the same answer.",
   note="State identity in E2 is the lattice node (returned vectors within 1e-9 are merged; checked on every transition). A coarser-than-dense lattice is reported as a machinery error, not a verdict."),
 "C05": dict(engine="E1-lattice", ref="5/C05",
   technique="bounded-exhaustive lattice around every multiple of pi of J5 (both frames: model angle and raw joint value) against a geometric axis-collinearity oracle; continuity lattice with oracle-computed preconditions",
   text="Detection: robots (signs x offsets incl. J5 offset) x t5 = k*pi + d for k in -3..3 and d on both sides of the 0.01 degree band x wrappers; Some(A) iff the FK_ref axes of joints 4 and 6 are within the band of collinear. Continuity: exactly singular poses whose arm sensitivity and other-branch conditions (computed by the oracle) qualify: previous comes back first, a singular answer moves J4 and J6 together (previous given explicitly, or as CONSTRAINT_CENTERED on a robot whose constraint centres are that vector). Threshold sweep (axis-aligned arm postures (J1 on the base axes, links horizontal/vertical) x 5x5 J4/J6): the axis that approaches a special value is enumerated along a magnitude ladder (13 per decade, 1e-12..1e-2, both sides, plus neighbours/squares/roots of the float literals of the source file under test).",
   note="Band edge +-5% skipped. Continuity is demanded only under the two preconditions named in the property, computed independently of the solver."),
 "C06": dict(engine="E1-lattice", ref="5/C06",
   technique="bounded-exhaustive lattice over robots (dof 5/6), stacks, J6 alphabet and the four entry points against the stack's reference FK",
   text="Every answer's tool point and tool axis are checked through the reference FK of the stack, J6 must be bit-equal to the caller's value (0 for plain inverse on a 5-DOF robot), the originating J1..J5 must be present and the list non-empty on regular poses; history variant: the previous vector already holds the requested tool point but another tool axis. Threshold sweep (J5 -> 0 and pi, completeness from 1.05 x the band): the axis that approaches a special value is enumerated along a magnitude ladder (13 per decade, 1e-12..1e-2, both sides, plus neighbours/squares/roots of the float literals of the source file under test). Robots declared 5-DOF through a URDF description object must keep the declaration through parameters().",
   note="Trusted: FK_ref and the stack model. Lattice-relative."),
 "C07": dict(engine="E1-lattice + E2-graph", ref="5/C07",
   technique="exhaustive enumeration of (from, to, angle) on a degree lattice of [-720,720]^3 against arc membership by definition; BFS over constructor/update_range sequences",
   text="All (from,to) pairs x all angles on the 5-degree (thorough 3-degree) lattice, a third of the angles moved off-lattice by irrational shifts, three constructors, neighbours wide or from==to; oracle = arc membership modulo 2pi; plus centre accepted, filter == pointwise compliant, and all constructor/update_range sequences to depth 3 compared field by field with a fresh constructor. Threshold sweep (range width -> 0 and -> a full turn, signed zeros): the axis that approaches a special value is enumerated along a magnitude ladder (13 per decade, 1e-12..1e-2, both sides, plus neighbours/squares/roots of the float literals of the source file under test). URDF encoding of 'no limit': 7 masks of joints without <limit> x 4 declaration orders, unlimited joints accept every angle.",
   note="Lattice points on an arc end are skipped except an exactly decidable family; reversed ranges with from = to (mod 360) are ambiguous in the statement and skipped."),
 "C08": dict(engine="E2-graph + E1-lattice", ref="5/C08",
   technique="breadth-first enumeration of wrapper stacks (depth <= 3 thorough) with a differential oracle: constrained stack vs the identical unconstrained stack filtered by arc membership",
   text="For every stack over {tool, base, frame, parallelogram} around a constrained robot (dof 5/6), every limit set (window, wrapping, wide, from==to, excluding, around the singular recovery, narrow J4 window with a previous outside it, almost-full-turn ranges forbidding an 8e-4 rad sliver around a solution), weight, pose, previous and entry point: answers == compliant subset of the unconstrained answers (both inclusions, mod 2pi); constraints() delegated field by field. Limits are built through four construction histories chosen as a function of the data (new, update_range over an off-centre / an unconstrained earlier range, from_degrees); reference values come from a fresh Constraints::new.",
   note="Parallelogram limits are read on the wrapped robot's joints (weaker reading). Singular answers are not compared under CONSTRAINT_CENTERED (reference differs by design)."),
 "C09": dict(engine="E2-graph + E1-lattice", ref="5/C09",
   technique="breadth-first enumeration of every tool/base/frame sequence of length 1..3 over an isometry alphabet; per stack the full delegation matrix of trait entry points is executed and compared with the composed reference",
   text="1884 (quick) / 6174 (thorough) stacks x robots x joint vectors x previous vectors {near the solution, CONSTRAINT_CENTERED with off-zero constraint centres, multi-turn}: forward, link poses, singularity, constraints, and the four inverse entry points (round trip through the reference FK, continuation order/representative, J6 contracts bit-exact); LinearAxis (3 axes) and Gantry forward via verification-only constructors. Threshold sweep (wrapper rotation/translation -> identity, alone and nested): the axis that approaches a special value is enumerated along a magnitude ladder (13 per decade, 1e-12..1e-2, both sides, plus neighbours/squares/roots of the float literals of the source file under test). The continuation-order clause is also run through a robot with shape (collision filter over tool > base > limits, six environments, near and far previous).",
   note="5-DOF clauses are evaluated on stacks whose tools/frames are axial, as the property presupposes."),
 "C10": dict(engine="E1-lattice", ref="5/C10",
   technique="bounded-exhaustive enumeration of cell configurations x postures x safety tables x modes x entry points against a brute-force all-pairs oracle with an own triangle-distance; first-collision mode re-run in rayon pools 1..16",
   text="Synthetic box robot (vertex counts varied so the pre-filter's 'smaller mesh' choice flips) with/without tool and base, 13 environment layouts incl. bodies inside the inflated box of a link, enclosing bodies, a turned octahedron and a two-piece mesh inside the safety margin, 192 postures, tables: touch, 2/5 cm, mixed, per-pair overrides, NEVER_COLLIDES on each candidate pair in both key orders, NEVER_COLLIDES as environment / robot default with non-negative per-pair overrides; pools of every size 1..16 whenever exactly one pair collides in first-collision mode; collision_details/collides/RobotBody::collides/near (with a table different from the body's); plus the bundled RX160 STL meshes in the cell of the crate's example, decided pairwise by parry's exact queries. All-mode list must equal the oracle set, first-mode a non-empty subset iff the set is non-empty, no-check nothing; pool sizes 1,2,4,8,16 must agree. An unrelated robot on the same thread is asked about the same joints before every verdict (no state shared between instances).",
   note="The oracle (own f64 segment/triangle code) is cross-checked against parry's exact queries in every run; pairs within 1 mm of their limit are not judged; tasks are assumed atomic (textual audit of collisions.rs each run, exit 2 if it no longer holds)."),
 "C11": dict(engine="E1-lattice", ref="5/C11",
   technique="bounded-exhaustive enumeration of constructors x frames x environments x safety x limits x postures with a differential oracle (ordered filter of the underlying stack's answers)",
   text="Each inverse entry point of KinematicsWithShape must return exactly the underlying stack's answers with !collides, in unchanged order, bit-equal; forward/link poses/singularity bit-equal; the underlying stack is built by the harness from the same pieces (tool over base over the limited robot), and constraints() must return the limits given to the constructor field by field (incl. hand-set public centers/tolerances); the constructed stack equals base*FK_ref*tool; positioned_robot places meshes at the link poses; previous in {near, CONSTRAINT_CENTERED, far}; J6 arguments {0.4, 2.9, 0.4 + 2 pi} and limit variants incl. wrapping J4/J6 ranges and an unconstrained J6; previous also equal to each answer of the underlying stack itself (the robot 'already stands' on a solution, colliding ones included); a second robot (same environment size, obstacles moved / other safety) is queried on the same thread just before each call (no state shared between instances); verdicts for the reference filter come from collision_details. A fourth construction path builds the robot with checking off and installs the safety table through the public field afterwards.",
   note="collides() itself is tied to the pair oracle by C10. Cases where collisions remove some but not all answers must occur or the run is void."),
 "C12": dict(engine="E1-lattice + E4-sched", ref="5/C12",
   technique="scenario lattice on the real planner with scripted RNG, plus stateless DFS over all (or preemption-bounded) interleavings of the strategy race under a token-passing controller at the stop-flag hook points; rayon runs validated against explored traces",
   text="E1: ~10k scenarios (start, stroke length/shape incl. short legs that turn the tool so that rotation dictates the check steps, and repeated poses / parking on the last stroke pose, check steps, cost limit, recursion depth, include-interpolation, seven obstacle layouts incl. one that blocks an arm branch mid-stroke only, safety, limits) plus ~1k scenarios run one at a time under the event recorder: every Ok path is judged for collision freedom (collides + brute-force pairs), limits, start configuration, ordered LAND/TRACE/PARK embedding with poses reproduced by the reference FK, linearity of LIN_INTERP waypoints, transition cost, and absence of LIN_INTERP when not requested. E4: 2-strategy races explored completely, 4-strategy races (one of them with strategies that really fail mid-stroke) with preemption bound 1 (thorough 2); success must be schedule independent; 20 rayon runs per scenario in pools 1..16 must reproduce explored per-strategy hook sequences. Transition coefficients {default, stricter on all joints, base joint only}; the cost clause uses the configured set and its own weighted sum.",
   note="RNG draws are scripted to a constant so RRT legs are deterministic; the controller is sequentially consistent (the flag is monotone, see DESIGN 8); the cost clause is judged only when no RRT gap closing can be inside the Cartesian part."),
 "C13": dict(engine="E3-env", ref="5/C13",
   technique="exhaustive tree exploration of scripted sample sequences (ScriptedRng hook) of the real dual-tree RRT, default-first with every deviation at every consumed position; cancellation injected inside every consumed sample",
   text="Layouts {free, pillar, plates around the tool} x limits {wide, window, wrapping, non-wrapping beyond +-pi} x step sizes (0.05..2.5 rad, and 2.5e-4 / 8e-4 rad on a pair 0.03 rad apart; goal equal to the start exactly and up to 1e-17 residues) x try budgets 0..5 (thorough 6) x alphabet of 5 (thorough 7) joint-space samples: every Ok path starts/ends bit-exactly at start/goal, every node is reported free, consecutive nodes are within 3 steps, nodes are within non-wrapping limits; a flag raised before the call gives Err, a flag raised inside sample k lets at most that iteration finish. The construction history of the limits (new, update_range over three kinds of earlier range, from_degrees) rotates over the scenarios.",
   note="Runs on plain OS threads (the thread-local script must not be clobbered by rayon work stealing); every 16th execution is replayed and compared."),
 "C14": dict(engine="E1-lattice", ref="5/C14",
   technique="bounded-exhaustive enumeration of cells x initial postures x from/to vectors against the 12-candidate definition with the full collision check as oracle; pools 1..16",
   text="The offered neighbours must equal, as a multiset, the single-joint substitutions that arc membership accepts and the full collides() of the same robot reports free; from/to vectors drive each joint into free space, self-collision, the base, the environment or out of limits; cells with/without base and tool, a moved base, and a J2->J3 parallelogram on top (where the driven joint bends the chain behind it); from/to symmetric about the initial vector, equal to each other, or both on one side.",
   note="The full collision check is tied to the pair oracle by C10."),
 "C15": dict(engine="E1-lattice", ref="5/C15",
   technique="lattice enumeration of postures/stacks/steps; the private Jacobian is reconstructed row by row through the public API and compared with the geometric Jacobian of the reference link model; linear maps decided on a basis",
   text="Robots unconstrained and constrained with each joint exactly on its upper / lower limit; stacks bare/tool/base/base+tool and three parallelogram stacks (ratios 1, 0.5, -0.5; reference by the chain rule), a third of the postures with whole turns added; J (via torques_from_vector(e_k)) vs axis x lever / axis from FK_ref within eps*reach + 4e-15*reach/eps; J_geo * velocities(X) = X on the 6 basis twists and 2 mixed ones; torques = J_geo^T F; isometry, vector and fixed entry points agree. Threshold sweep (differencing step inside 1e-7..1e-5, joints -> 0 / +-pi): the axis that approaches a special value is enumerated along a magnitude ladder (13 per decade, 1e-12..1e-2, both sides, plus neighbours/squares/roots of the float literals of the source file under test). Discontinuity sweep: sign jumps of the quaternion returned by forward() are located by bisection along 54 joint lines and the Jacobian is evaluated with the differencing step straddling each jump.",
   note="Postures with condition number >= 1e3 are skipped (counted)."),
 "C16": dict(engine="E1-lattice", ref="5/C16",
   technique="exhaustive enumeration of all 30 (driven, coupled) pairs x scalings x stack variants on the real wrapper against the substitution model",
   text="forward and link poses bit-equal to the inner robot at the substituted joint vector and equal to the composed reference; every answer of the four inverse entry points maps back onto the request; P over P composes. Threshold sweep (scaling -> 0, +-1, +-2; driven/coupled joint -> 0): the axis that approaches a special value is enumerated along a magnitude ladder (13 per decade, 1e-12..1e-2, both sides, plus neighbours/squares/roots of the float literals of the source file under test).",
   note="Trusted: FK_ref, stack model."),
 "C17": dict(engine="E1-lattice", ref="5/C17",
   technique="exhaustive enumeration of triangles x rigid motions x per-point perturbations around the 5 mm tolerance, degenerate triples, and forward_transformed cases",
   text="Exact images: frame maps the points, is a proper rotation and equals the generating motion; perturbations of 6/50 mm are rejected as NotIsometry, 1/4 mm accepted; collinear/coincident triples give ColinearPoints with the right side; Frame::translation; forward_transformed pose, soundness and order. Threshold sweep (rotation angle -> 0 / half turn, perturbation -> 5 mm, triangle height -> 0): the axis that approaches a special value is enumerated along a magnitude ladder (13 per decade, 1e-12..1e-2, both sides, plus neighbours/squares/roots of the float literals of the source file under test). Two image points moved apart / together by 1..4.9 mm each, classified by the largest change of a side length. forward_transformed is preceded by the same query on a frame over an unrelated robot.",
   note="Tolerances scale with the distance from the origin and the triangle height (conditioning)."),
 "C18": dict(engine="E3-env", ref="5/C18",
   technique="exhaustive enumeration of scripted RNG answers (ScriptedRng hook) over a lattice of ranges; piecewise-linear argument makes the draw alphabet complete per range",
   text="(from,to) on a 5-degree (thorough 3-degree) lattice of [-360,360]^2 x unit draws {0, 2^-52, i/64, 1-2^-52, both sides of the segment switch point} x construction histories {new, from_degrees, update_range over five earlier ranges}; the real sampler consumes exactly these raw draws; result must lie on the arc and be accepted by compliant(); no panic. Threshold sweep (range width -> 0 / full turn, signed zeros): the axis that approaches a special value is enumerated along a magnitude ladder (13 per decade, 1e-12..1e-2, both sides, plus neighbours/squares/roots of the float literals of the source file under test). A sibling constraints set with the same lower limits is sampled on the same thread just before a quarter of the draws.",
   note="Relies on rand 0.9's u64 -> f64 mapping ((r >> 12) / 2^52), guarded by the draw-count check."),
 "C19": dict(engine="E1-lattice", ref="5/C19",
   technique="exhaustive enumeration of parameter records, documented syntax variants, all 1-/2-edit deviations of the documented file and all token strings up to a length bound",
   text="5184 records (offsets down to 3e-6 rad) + the robots axis round-trip through to_yaml/from_yaml_file; 736 documented-format variants parse to the harness's own expectation; 23k edited documents, 245k (thorough 5.4M) token strings, malformed deg() entries (must be errors), every byte string of length <= 2 and special byte strings never panic.",
   note="J6 sign of a 5-DOF record is not compared (the loader documents that it blocks it)."),
 "C20": dict(engine="E1-lattice", ref="5/C20",
   technique="exhaustive enumeration of generated URDF/xacro descriptions over layout, naming, nesting and joint-order permutations, with rotating sign/limit/copy axes; error-path enumeration",
   text="Extracted parameters equal the printed decimals, signs follow the axes, limits follow each syntax (six uniform styles and three mixed per joint, so a joint without <limit> follows limited siblings in every declaration order; parameter records incl. exact relations b == c2, c3 == -a2, all equal), the built solver's compliance equals arc membership (no <limit> => unconstrained), conflicting copies (differing in an origin, or in the limits only) are errors; missing joints and token corruptions never panic. One document in 16 is first extracted in the other naming mode; the same decorated names are resolved automatically and passed as an explicit list.",
   note="5-DOF detection is not judged (not demanded by the statement)."),
}

def main():
    try:
        commits = subprocess.check_output(["git","-C","/repo","log","--format=%h %s","--grep=verif hooks"], text=True).strip().splitlines()
    except Exception:
        commits = []
    props = [json.loads(l) for l in open("/verif/properties.jsonl")]
    checks = []
    for p in props:
        c = CHECKS.get(p["id"])
        if not c: continue
        checks.append({
          "property_id": p["id"],
          "quick_cmd": f"./check {p['id']} quick",
          "thorough_cmd": f"./check {p['id']} thorough",
          "evidence_file": f"/verif/evidence/{p['id']}.json",
          "replay_cmd_template": f"./check {p['id']} --replay {{path}}",
          "engine": c["engine"],
          "level_claimed": {"category":"model_checking","text":c["text"],"design_ref":c["ref"]},
          "level_note": c["note"],
          "technique": c["technique"],
        })
    na = [{"property_id":p["id"],"reason":NA.get(p["id"],"check under construction in this round; not claimed yet")} for p in props if p["id"] not in CHECKS]
    m = {
      "version": 1,
      "setup_cmd": "./setup.sh",
      "hooks": {
        "guard": "rs_opw_verif",
        "enable": "RUSTFLAGS='--cfg rs_opw_verif' via /verif/harness/.cargo/config.toml (path dependency on /repo, rebuilt from the working tree by ./check)",
        "baseline_off_cmd": "cd /repo && cargo test --workspace --no-fail-fast --offline",
        "source_commits": [c.split()[0] for c in commits],
        "add_only": True,
      },
      "engines": [
        {"name":"E1-lattice","path":"harness/src/common/par.rs","serves_properties":sorted(k for k,v in CHECKS.items() if "E1" in v["engine"]),"kind_free_text":"bounded-exhaustive product enumeration of inputs/configurations on the real API against reference models"},
        {"name":"E2-graph","path":"harness/src","serves_properties":sorted(k for k,v in CHECKS.items() if "E2" in v["engine"]),"kind_free_text":"explicit-state search over operation sequences / wrapper stacks (stateright or BFS), transitions call the real code"},
        {"name":"E3-env","path":"harness/src","serves_properties":sorted(k for k,v in CHECKS.items() if "E3" in v["engine"]),"kind_free_text":"exhaustive enumeration of scripted RNG answers (hook ScriptedRng), deviation-bounded"},
        {"name":"E4-sched","path":"harness/src","serves_properties":sorted(k for k,v in CHECKS.items() if "E4" in v["engine"]),"kind_free_text":"stateless DFS over interleavings of the strategy race under a token-passing controller on the real closure"},
      ],
      "checks": checks,
      "not_applicable": na,
      "notes": "All checks: ./check <id> quick|thorough|--replay <file>. Exit 2 = machinery failure, never a verdict. Known findings: /verif/known_findings.json.",
    }
    json.dump(m, open("/verif/MANIFEST.json","w"), indent=1)
    print("checks:", len(checks), "not_applicable:", len(na))

NA = {}
if __name__ == "__main__":
    main()
