#!/usr/bin/env python3
"""Generates MANIFEST.json from the table below (kept in one place so it stays valid)."""
import json, subprocess

CHECKS = {
 "C03": dict(engine="E1-lattice", technique="bounded-exhaustive lattice enumeration of (robot, joint vector) on the real FK code against an independent link-chain model",
   text="Every point of a finite product lattice (geometries incl. b!=0/a2!=0 x all 64 sign patterns x offsets x joint values incl. |q|>>2pi) is executed on forward and forward_with_joint_poses and compared with FK_ref (elementary-transform chain, itself cross-validated on 2048 recorded cases of an independent C++ implementation). Lattice-relative coverage statement; a closed-form formula has no hidden state so a lattice hitting every parameter with zero/non-zero/negative values and every sign pattern exercises every term.",
   note="Trusted: FK_ref (harness, hand-written f64 matrices), nalgebra quaternion<->matrix conversion, the lattice as printed in evidence.", ref="5/C03"),
}

def main():
    try:
        commits = subprocess.check_output(["git","-C","/repo","log","--format=%h %s","--grep=verif hooks"], text=True).strip().splitlines()
    except Exception:
        commits = []
    props = [json.loads(l) for l in open("/verif/properties.jsonl")]
    checks = []
    for p in props:
        c = CHECKS.get(p["id"])
        if not c: continue
        checks.append({
          "property_id": p["id"],
          "quick_cmd": f"./check {p['id']} quick",
          "thorough_cmd": f"./check {p['id']} thorough",
          "evidence_file": f"/verif/evidence/{p['id']}.json",
          "replay_cmd_template": f"./check {p['id']} --replay {{path}}",
          "engine": c["engine"],
          "level_claimed": {"category":"model_checking","text":c["text"],"design_ref":c["ref"]},
          "level_note": c["note"],
          "technique": c["technique"],
        })
    na = [{"property_id":p["id"],"reason":NA.get(p["id"],"check under construction in this round; not claimed yet")} for p in props if p["id"] not in CHECKS]
    m = {
      "version": 1,
      "setup_cmd": "./setup.sh",
      "hooks": {
        "guard": "rs_opw_verif",
        "enable": "RUSTFLAGS='--cfg rs_opw_verif' via /verif/harness/.cargo/config.toml (path dependency on /repo, rebuilt from the working tree by ./check)",
        "baseline_off_cmd": "cd /repo && cargo test --workspace --no-fail-fast --offline",
        "source_commits": [c.split()[0] for c in commits],
        "add_only": True,
      },
      "engines": [
        {"name":"E1-lattice","path":"harness/src/common/par.rs","serves_properties":sorted(k for k,v in CHECKS.items() if "E1" in v["engine"]),"kind_free_text":"bounded-exhaustive product enumeration of inputs/configurations on the real API against reference models"},
        {"name":"E2-graph","path":"harness/src","serves_properties":sorted(k for k,v in CHECKS.items() if "E2" in v["engine"]),"kind_free_text":"explicit-state search over operation sequences / wrapper stacks (stateright or BFS), transitions call the real code"},
        {"name":"E3-env","path":"harness/src","serves_properties":sorted(k for k,v in CHECKS.items() if "E3" in v["engine"]),"kind_free_text":"exhaustive enumeration of scripted RNG answers (hook ScriptedRng), deviation-bounded"},
        {"name":"E4-sched","path":"harness/src","serves_properties":sorted(k for k,v in CHECKS.items() if "E4" in v["engine"]),"kind_free_text":"stateless DFS over interleavings of the strategy race under a token-passing controller on the real closure"},
      ],
      "checks": checks,
      "not_applicable": na,
      "notes": "All checks: ./check <id> quick|thorough|--replay <file>. Exit 2 = machinery failure, never a verdict. Known findings: /verif/known_findings.json.",
    }
    json.dump(m, open("/verif/MANIFEST.json","w"), indent=1)
    print("checks:", len(checks), "not_applicable:", len(na))

NA = {}
if __name__ == "__main__":
    main()
