#!/bin/sh
# Build the checker (offline) from /verif/harness against /repo's current working tree.
set -e
cd "$(dirname "$0")/harness"
export CARGO_NET_OFFLINE=true
cargo build --release --offline 2>&1 | tail -3
test -x /verif/.target/release/opwmc
